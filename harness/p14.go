package main

import (
	"bytes"
	"crypto"
	"crypto/ecdsa"
	"crypto/ed25519"
	"crypto/elliptic"
	crand "crypto/rand"
	"crypto/rsa"
	"errors"
	"fmt"
	"github.com/fxamacker/cbor/v2"
	"io"
	"math/big"
	"sync"
	"time"

	cose "github.com/veraison/go-cose"
)

func init() {
	runners["C14"] = runC14
	runners["C15"] = runC15
	runners["C17"] = runC17
}

// ---------- C14 ----------

// keyWithLeadingZero generates an ECDSA key whose chosen coordinate has zeros leading bytes (rejection sampling on d).
func keyWithLeadingZero(r *Rng, curve elliptic.Curve, which string, tries int) *ecdsa.PrivateKey {
	size := (curve.Params().BitSize + 7) / 8
	for i := 0; i < tries; i++ {
		k, err := ecdsa.GenerateKey(curve, r)
		if err != nil {
			panic(err)
		}
		var v *big.Int
		switch which {
		case "x":
			v = k.X
		case "y":
			v = k.Y
		default:
			v = k.D
		}
		if len(v.Bytes()) < size {
			return k
		}
	}
	return nil
}

// a private key with a short d: d is chosen, the point computed
func keyWithSmallD(curve elliptic.Curve, d *big.Int) *ecdsa.PrivateKey {
	x, y := curve.ScalarBaseMult(d.Bytes())
	return &ecdsa.PrivateKey{PublicKey: ecdsa.PublicKey{Curve: curve, X: x, Y: y}, D: d}
}

func coordLen(keyBytes []byte, label int64) int {
	w, err := refParseFull(keyBytes)
	if err != nil || w.Maj != 5 {
		return -1
	}
	for i := 0; i+1 < len(w.Kids); i += 2 {
		k := w.Kids[i]
		if (k.Maj == 1 && -1-int64(k.Val) == label) && w.Kids[i+1].Maj == 2 {
			return len(w.Kids[i+1].Str)
		}
	}
	return -1
}

func runC14(c *Collector, r *Rng, thorough bool) {
	c.Rule = "real P-256/P-384/P-521 and Ed25519 keys, including keys found by rejection sampling whose x, y or d has leading zero bytes and keys built from small private scalars: NewKeyFromPublic/Private -> MarshalCBOR -> UnmarshalCBOR -> PublicKey/PrivateKey must give an Equal key, serialised x and y must have exactly the field size, a signer from the COSE_Key must produce signatures its verifier accepts; with and without kid / key_ops / base IV / extra parameters; every step also compared with the Coq model; non-trivial = conversion succeeded; distinct by key"
	nPer := 12
	tries := 3000
	if thorough {
		nPer = 400
		tries = 200000
	}
	lzCount := map[string]int{}
	var lastPubKey *cose.Key // the decoded public COSE_Key of the last pubHalf call
	var b0pub []byte         // the serialisation MarshalCBOR returned for it (kept by the caller, not copied)
	pubHalf := func(class string, pubk *ecdsa.PublicKey, rep map[string]any) bool {
		size := (pubk.Curve.Params().BitSize + 7) / 8
		op, obs, k, err, p := execKeyFromPub(pubk)
		if p {
			c.Fail("C14/panic", "NewKeyFromPublic panicked", rep)
			return false
		}
		addCase(c, "frompub/"+class, op, obs, err == nil)
		if err != nil {
			c.Fail("C14/frompub-refused", "NewKeyFromPublic refused a valid key: "+err.Error(), rep)
			return false
		}
		decorate(r, k)
		b, merr := k.MarshalCBOR()
		if merr != nil {
			c.Fail("C14/marshal-refused", "MarshalCBOR refused: "+merr.Error(), rep)
			return false
		}
		c14Hold(c, b)
		b0pub = b
		if lx, ly := coordLen(b, -2), coordLen(b, -3); lx != size || ly != size {
			key := "C14/coordinate-width"
			if pubk.X.Sign() == 0 || pubk.Y.Sign() == 0 {
				key = "C14/zero-coordinate"
			}
			c.Fail(key, fmt.Sprintf("serialised x/y have %d/%d bytes, field size is %d: %x", lx, ly, size, b), rep)
		}
		d := decodeCase(c, "unmarshal/"+class, "DKey", b)
		if d.err != nil || d.paniced {
			c.Fail("C14/unmarshal-refused", fmt.Sprintf("own serialisation refused: %v", d.err), rep)
			return false
		}
		op, obs, pub, err, _ := execKeyPublic(d.key)
		addCase(c, "public/"+class, op, obs, err == nil)
		if err != nil {
			c.Fail("C14/public-refused", "PublicKey() after the round trip failed: "+err.Error(), rep)
			return false
		}
		if e, ok := pub.(*ecdsa.PublicKey); !ok || !e.Equal(pubk) {
			c.Fail("C14/public-differs", "public key after the round trip is not Equal to the original", rep)
		}
		if !bytes.Equal(d.key.ID, k.ID) || !bytes.Equal(d.key.BaseIV, k.BaseIV) || fmt.Sprint(d.key.Ops) != fmt.Sprint(k.Ops) {
			c.Fail("C14/extra-params-lost", "kid / key_ops / base IV changed in the round trip", rep)
		}
		lastPubKey = d.key
		// the same key built with the low-level constructor from the minimal big-endian bytes of x and y (what
		// big.Int.Bytes() gives, leading zeros dropped): the serialisation must still carry full-width coordinates
		var alg cose.Algorithm
		for _, ci := range curves {
			if ci.curve == pubk.Curve {
				alg = ci.alg
			}
		}
		xb, yb := pubk.X.Bytes(), pubk.Y.Bytes()
		if len(xb) > 0 && len(yb) > 0 {
			if k2, err := cose.NewKeyEC2(alg, xb, yb, nil); err == nil {
				op, obs, b2, err, p := execEncKey(k2)
				if p {
					c.Fail("C14/panic", "MarshalCBOR panicked", rep)
					return false
				}
				addCase(c, "marshal-trimmed/"+class, op, obs, err == nil)
				if err != nil {
					c.Fail("C14/marshal-refused", "MarshalCBOR of a key with minimal-length coordinates refused: "+err.Error(), rep)
				} else {
					if lx, ly := coordLen(b2, -2), coordLen(b2, -3); lx != size || ly != size {
						c.Fail("C14/coordinate-width", fmt.Sprintf("key built from %d/%d-byte coordinates is serialised with x/y of %d/%d bytes, field size is %d: %x", len(xb), len(yb), lx, ly, size, b2), rep)
					}
					// the same key held in memory with its curve (and key type) under other Go integer types, as
					// ParamInt / the accessors admit: same serialisation
					for _, crvSp := range []any{int64(k2.Params[cose.KeyLabelEC2Curve].(cose.Curve)), int(k2.Params[cose.KeyLabelEC2Curve].(cose.Curve)), int8(k2.Params[cose.KeyLabelEC2Curve].(cose.Curve))} {
						k3 := &cose.Key{Type: k2.Type, Algorithm: k2.Algorithm, Params: map[any]any{}}
						for kk, vv := range k2.Params {
							k3.Params[kk] = vv
						}
						k3.Params[cose.KeyLabelEC2Curve] = crvSp
						b3, err := k3.MarshalCBOR()
						c.Eval("marshal-trimmed/curve-spelled/"+class, fmt.Sprintf("%T", crvSp), true)
						if _, perr := k3.PublicKey(); perr == nil && (err != nil || !bytes.Equal(b3, b2)) {
							c.Fail("C14/coordinate-width", fmt.Sprintf("the key with its curve held as %T is usable (PublicKey() succeeds) but serialises to %x (%v); with the curve held as cose.Curve to %x", crvSp, b3, err, b2), rep)
						}
					}
					d2 := decodeCase(c, "unmarshal-trimmed/"+class, "DKey", b2)
					if d2.err == nil && !d2.paniced {
						if pk, err := d2.key.PublicKey(); err != nil {
							c.Fail("C14/public-refused", "PublicKey() of the re-parsed key failed: "+err.Error(), rep)
						} else if e, ok := pk.(*ecdsa.PublicKey); !ok || !e.Equal(pubk) {
							c.Fail("C14/public-differs", "public key built from minimal-length coordinates differs after the round trip", rep)
						}
					}
				}
			}
		}
		return true
	}
	roundTrip := func(class string, priv *ecdsa.PrivateKey) {
		rep := map[string]any{"curve": priv.Curve.Params().Name, "x": priv.X.String(), "y": priv.Y.String(), "d": priv.D.String()}
		if !pubHalf(class, &priv.PublicKey, rep) {
			return
		}
		d := struct{ key *cose.Key }{lastPubKey}
		// private half
		op, obs, kp, err, p := execKeyFromPriv(priv)
		if p {
			c.Fail("C14/panic", "NewKeyFromPrivate panicked", rep)
			return
		}
		addCase(c, "frompriv/"+class, op, obs, err == nil)
		if err != nil {
			c.Fail("C14/frompriv-refused", "NewKeyFromPrivate refused a valid key: "+err.Error(), rep)
			return
		}
		bp, merr := kp.MarshalCBOR()
		if merr != nil {
			c.Fail("C14/marshal-refused", "MarshalCBOR refused: "+merr.Error(), rep)
			return
		}
		c14Hold(c, bp)
		// both halves serialised, then parsed: the first serialisation is still the first key
		if first := decodeKind("DKey", b0pub); first.err != nil || first.key == nil {
			c.Fail("C14/unmarshal-refused", fmt.Sprintf("the public half serialised before the private half no longer parses after the private half was serialised: %v", first.err), rep)
		}
		dp := decodeCase(c, "unmarshal-private/"+class, "DKey", bp)
		if dp.err != nil || dp.paniced {
			c.Fail("C14/unmarshal-refused", fmt.Sprintf("own serialisation of a private key refused: %v", dp.err), rep)
			return
		}
		op, obs, pv, err, _ := execKeyPrivate(dp.key)
		addCase(c, "private/"+class, op, obs, err == nil)
		if err != nil {
			c.Fail("C14/private-refused", "PrivateKey() after the round trip failed: "+err.Error(), rep)
			return
		}
		if e, ok := pv.(*ecdsa.PrivateKey); !ok || !e.Equal(priv) {
			c.Fail("C14/private-differs", "private key after the round trip is not Equal to the original", rep)
		}
		// key_ops says what the key may be used for, not whether it converts: with any key_ops value the round-tripped
		// COSE_Key still converts back to the same public and private halves
		for _, ops := range [][]cose.KeyOp{{cose.KeyOpSign}, {cose.KeyOpVerify}, {cose.KeyOp(3)}, {}} {
			kk := *dp.key
			kk.Ops = ops
			bo, err := kk.MarshalCBOR()
			if err != nil {
				c.Fail("C14/marshal-refused", fmt.Sprintf("MarshalCBOR refused a key with key_ops %v: %v", ops, err), rep)
				continue
			}
			do := decodeCase(c, "unmarshal-private-ops/"+class, "DKey", bo)
			if do.err != nil || do.paniced {
				c.Fail("C14/unmarshal-refused", fmt.Sprintf("own serialisation of a private key with key_ops %v refused: %v", ops, do.err), rep)
				continue
			}
			op, obs, pv, err, _ := execKeyPrivate(do.key)
			addCase(c, "private-ops/"+class, op, obs, err == nil)
			if e, ok := pv.(*ecdsa.PrivateKey); err != nil || !ok || !e.Equal(priv) {
				c.Fail("C14/private-differs", fmt.Sprintf("with key_ops %v the private key does not convert back to an Equal key: %v", ops, err), rep)
			}
			op, obs, pb, err, _ := execKeyPublic(do.key)
			addCase(c, "public-ops/"+class, op, obs, err == nil)
			if e, ok := pb.(*ecdsa.PublicKey); err != nil || !ok || !e.Equal(&priv.PublicKey) {
				c.Fail("C14/public-differs", fmt.Sprintf("with key_ops %v the public half does not convert back to an Equal key: %v", ops, err), rep)
			}
		}
		// signer from the COSE_Key, verifier from its public counterpart
		op, obs, sg, err, _ := execKeySigner(dp.key)
		addCase(c, "signer/"+class, op, obs, err == nil)
		op2, obs2, vf, err2, _ := execKeyVerifier(d.key)
		addCase(c, "verifier/"+class, op2, obs2, err2 == nil)
		if err != nil || err2 != nil {
			c.Fail("C14/signer-verifier-refused", fmt.Sprintf("Signer()/Verifier() from the round-tripped key failed: %v / %v", err, err2), rep)
			return
		}
		sig, serr := sg.Sign(r, []byte("message"))
		if serr != nil || vf.Verify([]byte("message"), sig) != nil {
			c.Fail("C14/signature-rejected", "signature of the COSE_Key signer is rejected by the COSE_Key verifier", rep)
		}
	}
	for _, ci := range curves {
		for i := 0; i < nPer; i++ {
			k, _ := ecdsa.GenerateKey(ci.curve, r)
			roundTrip("random/"+ci.name, k)
		}
		for _, which := range []string{"x", "y", "d"} {
			found := 0
			for i := 0; i < nPer/3+1; i++ {
				k := keyWithLeadingZero(r, ci.curve, which, tries)
				if k == nil {
					break
				}
				found++
				roundTrip("leading-zero-"+which+"/"+ci.name, k)
			}
			lzCount[ci.name+"/"+which] = found
		}
		// coordinates that END in a zero octet (and ones that begin and end in one): significant, not padding
		for _, which := range []string{"x", "y", "d"} {
			for i := 0; i < 4000; i++ {
				k, _ := ecdsa.GenerateKey(ci.curve, r)
				v := map[string]*big.Int{"x": k.X, "y": k.Y, "d": k.D}[which]
				if vb := v.Bytes(); vb[len(vb)-1] == 0 {
					roundTrip("trailing-zero-"+which+"/"+ci.name, k)
					break
				}
			}
		}
		// small private scalars: d with many leading zero bytes
		for _, d := range []int64{1, 2, 255, 256, 65537, 65536, 1 << 24} {
			roundTrip("small-d/"+ci.name, keyWithSmallD(ci.curve, big.NewInt(d)))
		}
		// the largest private scalars: d = n-1, n-2, n-256
		for _, off := range []int64{1, 2, 256} {
			roundTrip("large-d/"+ci.name, keyWithSmallD(ci.curve, new(big.Int).Sub(ci.curve.Params().N, big.NewInt(off))))
		}
	}
	c.Notes = append(c.Notes, fmt.Sprintf("keys with a leading-zero coordinate found by rejection sampling: %v", lzCount))
	// Ed25519
	for i := 0; i < nPer; i++ {
		pub, priv, _ := ed25519.GenerateKey(r)
		rep := map[string]any{"ed25519": hx(pub)}
		op, obs, k, err, _ := execKeyFromPriv(priv)
		addCase(c, "frompriv/ed25519", op, obs, err == nil)
		if err != nil {
			c.Fail("C14/frompriv-refused", "NewKeyFromPrivate(ed25519) failed: "+err.Error(), rep)
			continue
		}
		decorate(r, k)
		b, _ := k.MarshalCBOR()
		d := decodeCase(c, "unmarshal/ed25519", "DKey", b)
		if d.err != nil {
			c.Fail("C14/unmarshal-refused", "own serialisation refused: "+d.err.Error(), rep)
			continue
		}
		pv, err := d.key.PrivateKey()
		if e, ok := pv.(ed25519.PrivateKey); err != nil || !ok || !e.Equal(priv) {
			c.Fail("C14/private-differs", "Ed25519 private key differs after the round trip", rep)
		}
		pb, err := d.key.PublicKey()
		if e, ok := pb.(ed25519.PublicKey); err != nil || !ok || !e.Equal(pub) {
			c.Fail("C14/public-differs", "Ed25519 public key differs after the round trip", rep)
		}
		op, obs, kpub, err, _ := execKeyFromPub(pub)
		addCase(c, "frompub/ed25519", op, obs, err == nil)
		if err == nil {
			sg, e1 := d.key.Signer()
			vf, e2 := kpub.Verifier()
			if e1 != nil || e2 != nil {
				c.Fail("C14/signer-verifier-refused", fmt.Sprintf("%v / %v", e1, e2), rep)
				continue
			}
			sig, _ := sg.Sign(r, []byte("m"))
			if vf.Verify([]byte("m"), sig) != nil {
				c.Fail("C14/signature-rejected", "Ed25519 COSE_Key signer/verifier disagree", rep)
			}
		}
	}
	// valid points with a tiny x coordinate (x = 0, 1, 2, ...: the extreme of "leading zero bytes"; for x = 0 the
	// coordinate has no significant byte at all), on the three curves; p = 3 mod 4 for all of them
	for _, ci := range curves {
		prm := ci.curve.Params()
		// ... and valid points whose x (or y) lies between the group order n and the field prime p: coordinates are field
		// elements, bounded by p, not scalars bounded by n
		foundHigh := 0
		for off := int64(0); off < 64 && foundHigh < 3; off++ {
			x := new(big.Int).Add(prm.N, big.NewInt(off))
			if x.Cmp(prm.P) >= 0 {
				break
			}
			rhs := new(big.Int).Exp(x, big.NewInt(3), prm.P)
			rhs.Sub(rhs, new(big.Int).Mul(big.NewInt(3), x))
			rhs.Add(rhs, prm.B)
			rhs.Mod(rhs, prm.P)
			y := new(big.Int).ModSqrt(rhs, prm.P)
			if y == nil || !ci.curve.IsOnCurve(x, y) {
				continue
			}
			foundHigh++
			pub := &ecdsa.PublicKey{Curve: ci.curve, X: x, Y: y}
			rep := map[string]any{"curve": ci.name, "x": x.String(), "y": y.String()}
			if pubHalf("x-between-n-and-p/"+ci.name, pub, rep) {
				op, obs, _, err, _ := execKeyVerifier(lastPubKey)
				addCase(c, "verifier/x-between-n-and-p/"+ci.name, op, obs, err == nil)
				if err != nil {
					c.Fail("C14/signer-verifier-refused", "Verifier() from a round-tripped valid public key failed: "+err.Error(), rep)
				}
			}
		}
		found := 0
		for xv := int64(0); xv < 64 && found < 6; xv++ {
			x := big.NewInt(xv)
			rhs := new(big.Int).Exp(x, big.NewInt(3), prm.P)
			rhs.Sub(rhs, new(big.Int).Mul(big.NewInt(3), x))
			rhs.Add(rhs, prm.B)
			rhs.Mod(rhs, prm.P)
			y := new(big.Int).ModSqrt(rhs, prm.P)
			if y == nil || !ci.curve.IsOnCurve(x, y) {
				continue
			}
			found++
			for _, yy := range []*big.Int{y, new(big.Int).Sub(prm.P, y)} {
				pub := &ecdsa.PublicKey{Curve: ci.curve, X: x, Y: yy}
				rep := map[string]any{"curve": ci.name, "x": x.String(), "y": yy.String()}
				if pubHalf("tiny-x/"+ci.name, pub, rep) {
					op, obs, _, err, _ := execKeyVerifier(lastPubKey)
					addCase(c, "verifier/tiny-x/"+ci.name, op, obs, err == nil)
					if err != nil {
						c.Fail("C14/signer-verifier-refused", "Verifier() from a round-tripped valid public key failed: "+err.Error(), rep)
					}
				}
			}
		}
	}
	c14KeySets(c, r)
	c14SharedBuffers(c, r)
}

// serialisations a caller keeps while it serialises other keys: they never change
var c14Held []struct{ out, copy []byte }

func c14Hold(c *Collector, out []byte) {
	for _, h := range c14Held {
		if !bytes.Equal(h.out, h.copy) {
			c.Fail("C14/earlier-serialisation-changed", fmt.Sprintf("bytes returned by an earlier Key.MarshalCBOR changed while other keys were serialised: were %x, now %x", trimTo(h.copy, 48), trimTo(h.out, 48)), map[string]any{"len": len(h.out)})
			c14Held = nil
			break
		}
	}
	c14Held = append(c14Held, struct{ out, copy []byte }{out, append([]byte{}, out...)})
	if len(c14Held) > 32 {
		c14Held = c14Held[1:]
	}
}

func decorate(r *Rng, k *cose.Key) {
	if r.Bool() {
		k.ID = r.Bytes(1 + r.Intn(8))
	}
	if r.Chance(1, 3) {
		k.Ops = []cose.KeyOp{cose.KeyOpSign, cose.KeyOpVerify}
	}
	if r.Chance(1, 3) {
		k.BaseIV = r.Bytes(8)
	}
	if r.Chance(1, 3) {
		k.Params[int64(-70000)] = "extra"
	}
	if r.Chance(1, 4) { // an extra parameter whose value is a tagged item, or an integer too large for 64 bits
		k.Params[int64(-70001)] = pick(r, []any{cbor.Tag{Number: 100, Content: int64(5)}, cbor.Tag{Number: 32, Content: "https://example.org"}, *new(big.Int).Lsh(big.NewInt(1), 70)})
	}
}

// ---------- C15 ----------

func runC15(c *Collector, r *Rng, thorough bool) {
	c.Rule = "key decoder fed (a) a grid kty {0,1,2,4,99,-1} x crv {absent,0..8,text} x alg {absent,0,-7,-35,-36,-8,-37,text} x key_ops {absent, [], [sign], [verify], [sign,verify], [\"sign\"], [99], text} x presence/length of x,y,d {absent, 0, size-1, size, size+1} and (b) structural/byte mutants of valid EC2/OKP/symmetric/custom keys; for every accepted key: the C15 consistency conditions checked by the harness, re-encoding decodes to the same canonical bytes, Signer()/Verifier() granted only with private/public material and matching key_ops, for the key's own algorithm; all compared with the Coq model; non-trivial = key accepted; distinct by input bytes"
	ktys := []int64{0, 1, 2, 4, 99, -1}
	crvs := []*W{nil, wInt(0, -1), wInt(1, -1), wInt(2, -1), wInt(3, -1), wInt(4, -1), wInt(5, -1), wInt(6, -1), wInt(7, -1), wInt(8, -1), wTstr("P-256", -1)}
	algs := []*W{nil, wInt(0, -1), wInt(-7, -1), wInt(-35, -1), wInt(-36, -1), wInt(-8, -1), wInt(-37, -1), wTstr("ES256", -1)}
	opss := []*W{nil, wArr(-1), wArr(-1, wInt(1, -1)), wArr(-1, wInt(2, -1)), wArr(-1, wInt(1, -1), wInt(2, -1)), wArr(-1, wTstr("sign", -1)), wArr(-1, wInt(99, -1)), wTstr("sign", -1), wArr(-1, wTstr("bogus", -1)), wArr(-1, wBool(true)),
		// values outside the registry: present key_ops that name neither sign nor verify grant nothing
		wArr(-1, wInt(65, -1)), wArr(-1, wInt(66, -1)), wArr(-1, wInt(3, -1), wInt(129, -1)), wArr(-1, wInt(-63, -1)), wArr(-1, wInt(-62, -1), wInt(64, -1)), wArr(-1, wInt(1<<32+1, -1), wInt(1<<32+2, -1))}
	lens := []int{-1, 0, 16, 31, 32, 33, 48, 64, 66, 67}
	count := 0
	for _, kty := range ktys {
		for _, crv := range crvs {
			for _, alg := range algs {
				for _, ops := range opss {
					for _, lx := range lens {
						count++
						if !thorough && !(count%23 == 0 || (ops == nil && alg == nil && count%5 == 0)) {
							continue
						}
						ly := pick(r, lens)
						ld := pick(r, lens)
						if r.Bool() {
							ly = lx
						}
						kv := []*W{wInt(1, -1), wInt(kty, -1)}
						if crv != nil {
							kv = append(kv, wInt(-1, -1), crv.Clone())
						}
						if alg != nil {
							kv = append(kv, wInt(3, -1), alg.Clone())
						}
						if ops != nil {
							kv = append(kv, wInt(4, -1), ops.Clone())
						}
						if lx >= 0 {
							kv = append(kv, wInt(-2, -1), wBstr(r.Bytes(lx), -1))
						}
						if ly >= 0 && kty == 2 {
							kv = append(kv, wInt(-3, -1), wBstr(r.Bytes(ly), -1))
						}
						if ld >= 0 {
							kv = append(kv, wInt(-4, -1), wBstr(r.Bytes(ld), -1))
						}
						c15One(c, "grid", wMap(-1, kv...).Ser())
					}
				}
			}
		}
	}
	// usable keys (real material, public and private halves, every supported curve) whose alg parameter has every
	// shape a CBOR value can take: text identifiers (RFC 9052 allows tstr in general; this decoder's keys carry a
	// registered integer), byte strings, null, booleans, floats, arrays, bignums, other algorithms' integers
	for _, ci := range append([]curveInfo{}, curves...) {
		k, err := ecdsa.GenerateKey(ci.curve, r)
		if err != nil {
			continue
		}
		for _, private := range []bool{true, false} {
			var ck *cose.Key
			if private {
				ck, err = cose.NewKeyFromPrivate(k)
			} else {
				ck, err = cose.NewKeyFromPublic(&k.PublicKey)
			}
			if err != nil {
				continue
			}
			ck.Algorithm = 0
			b, err := ck.MarshalCBOR()
			if err != nil {
				continue
			}
			for _, av := range c15AlgShapes() {
				t, perr := refParseFull(b)
				if perr != nil || t.Maj != 5 {
					continue
				}
				t.Kids = append(t.Kids, wInt(3, -1), av)
				t.Val = uint64(len(t.Kids) / 2)
				c15One(c, "alg-shapes/"+ci.name, t.Ser())
			}
		}
	}
	if _, edPriv, err := ed25519.GenerateKey(r); err == nil {
		for _, private := range []bool{true, false} {
			var ck *cose.Key
			if private {
				ck, err = cose.NewKeyFromPrivate(edPriv)
			} else {
				ck, err = cose.NewKeyFromPublic(edPriv.Public())
			}
			if err != nil {
				continue
			}
			ck.Algorithm = 0
			b, err := ck.MarshalCBOR()
			if err != nil {
				continue
			}
			for _, av := range c15AlgShapes() {
				t, perr := refParseFull(b)
				if perr != nil || t.Maj != 5 {
					continue
				}
				t.Kids = append(t.Kids, wInt(3, -1), av)
				t.Val = uint64(len(t.Kids) / 2)
				c15One(c, "alg-shapes/Ed25519", t.Ser())
			}
		}
	}
	// mutants of valid keys, real key material included
	n := 120
	if thorough {
		n = 6000
	}
	for i := 0; i < n; i++ {
		var t *W
		if r.Chance(1, 3) {
			ci := pick(r, curves)
			k, _ := ecdsa.GenerateKey(ci.curve, r)
			ck, _ := cose.NewKeyFromPrivate(k)
			b, _ := ck.MarshalCBOR()
			t, _ = refParseFull(b)
		} else {
			t = genKeyTree(r)
		}
		c15One(c, "valid", t.Ser())
		for j := 0; j < 3; j++ {
			m := t.Clone()
			desc := mutateTree(r, &m)
			c15One(c, "tree-fault/"+desc, m.Ser())
		}
		b, desc := mutateBytes(r, t.Ser())
		c15One(c, "byte-fault/"+desc, b)
	}
	// exactly one item: a valid key followed by anything (an octet, a second key, a break), and a valid key whose map
	// head announces one pair fewer than follow, is not a COSE_Key
	for _, ci := range curves {
		k1, err1 := ecdsa.GenerateKey(ci.curve, r)
		if err1 != nil {
			continue
		}
		for _, private := range []bool{true, false} {
			var ck *cose.Key
			var err error
			if private {
				ck, err = cose.NewKeyFromPrivate(k1)
			} else {
				ck, err = cose.NewKeyFromPublic(&k1.PublicKey)
			}
			if err != nil {
				continue
			}
			b, err := ck.MarshalCBOR()
			if err != nil || len(b) == 0 {
				continue
			}
			c15One(c, "exactly-one-item/valid", b)
			for _, tail := range [][]byte{{0x00}, {0xff}, {0xf6}, {0x40}, b, {0xa0}} {
				in := append(append([]byte{}, b...), tail...)
				d := decodeCase(c, "exactly-one-item/trailing", "DKey", in)
				if d.err == nil && !d.paniced {
					c.Fail("C15/accepted-malformed", fmt.Sprintf("the key decoder accepted a valid key followed by %d more octets", len(tail)), map[string]any{"data": hx(in)})
				}
			}
			short := append([]byte{}, b...)
			if short[0]&0xe0 == 0xa0 && short[0]&0x1f > 1 && short[0]&0x1f < 24 {
				short[0]--
				d := decodeCase(c, "exactly-one-item/short-head", "DKey", short)
				if d.err == nil && !d.paniced {
					c.Fail("C15/accepted-malformed", "the key decoder accepted a map whose head announces one pair fewer than follow", map[string]any{"data": hx(short)})
				}
			}
		}
	}
	// a key object used once and then edited (private material removed, the public point removed, key_ops restricted,
	// the key re-keyed to another curve): what it yields afterwards is decided by what it holds now
	for _, ci := range curves {
		k1, err1 := ecdsa.GenerateKey(ci.curve, r)
		if err1 != nil {
			continue
		}
		for _, edit := range []string{"remove-d", "remove-y", "ops-verify-only", "ops-sign-only", "ops-empty", "rekey-other-curve", "kty-symmetric"} {
			ck, err := cose.NewKeyFromPrivate(k1)
			if err != nil {
				continue
			}
			sg0, e1 := ck.Signer()
			vf0, e2 := ck.Verifier()
			_, e3 := ck.PrivateKey()
			_, e4 := ck.PublicKey()
			if e1 != nil || e2 != nil || e3 != nil || e4 != nil || sg0 == nil || vf0 == nil {
				continue
			}
			wantSigner, wantVerifier := true, true
			switch edit {
			case "remove-d":
				delete(ck.Params, cose.KeyLabelEC2D)
				wantSigner = false
			case "remove-y":
				delete(ck.Params, cose.KeyLabelEC2Y)
				wantSigner, wantVerifier = false, false
			case "ops-verify-only":
				ck.Ops = []cose.KeyOp{cose.KeyOpVerify}
				wantSigner = false
			case "ops-sign-only":
				ck.Ops = []cose.KeyOp{cose.KeyOpSign}
				wantVerifier = false
			case "ops-empty":
				ck.Ops = []cose.KeyOp{}
				wantSigner, wantVerifier = false, false
			case "kty-symmetric":
				ck.Type = cose.KeyTypeSymmetric
				wantSigner, wantVerifier = false, false
			case "rekey-other-curve":
				other := curves[0]
				if other.name == ci.name {
					other = curves[1]
				}
				k2, _ := ecdsa.GenerateKey(other.curve, r)
				ck2, err := cose.NewKeyFromPrivate(k2)
				if err != nil {
					continue
				}
				ck.Params = ck2.Params
				ck.Algorithm = ck2.Algorithm
				sg, e1 := ck.Signer()
				vf, e2 := ck.Verifier()
				c.Eval("edited-after-use/"+ci.name, edit, true)
				if e1 != nil || e2 != nil {
					c.Fail("C15/signer-error", fmt.Sprintf("a key object re-keyed to %s after use yields no signer / verifier: %v / %v", other.name, e1, e2), map[string]any{"curve": ci.name, "edit": edit})
					continue
				}
				sig, serr := sg.Sign(r, []byte("m"))
				if sg.Algorithm() != other.alg || vf.Algorithm() != other.alg || serr != nil || !refVerify(other.alg, &k2.PublicKey, []byte("m"), sig) {
					c.Fail("C15/signer-algorithm", fmt.Sprintf("a key object re-keyed from %s to %s after use: signer algorithm %v, verifier algorithm %v, signature valid under the new key: %v", ci.name, other.name, sg.Algorithm(), vf.Algorithm(), serr == nil && refVerify(other.alg, &k2.PublicKey, []byte("m"), sig)), map[string]any{"curve": ci.name, "edit": edit})
				}
				continue
			}
			_, se := ck.Signer()
			_, ve := ck.Verifier()
			_, pe := ck.PrivateKey()
			c.Eval("edited-after-use/"+ci.name, edit, true)
			rep := map[string]any{"curve": ci.name, "edit": edit}
			if (se == nil) != wantSigner {
				key := "C15/signer-without-private"
				if edit != "remove-d" && edit != "remove-y" {
					key = "C15/signer-ignores-key-ops"
				}
				c.Fail(key, fmt.Sprintf("a key object edited after it had yielded a signer (%s): Signer() returns err=%v, expected a signer=%v", edit, se, wantSigner), rep)
			}
			if (ve == nil) != wantVerifier {
				key := "C15/verifier-without-public"
				if edit != "remove-d" && edit != "remove-y" {
					key = "C15/verifier-ignores-key-ops"
				}
				c.Fail(key, fmt.Sprintf("a key object edited after it had yielded a verifier (%s): Verifier() returns err=%v, expected a verifier=%v", edit, ve, wantVerifier), rep)
			}
			if (edit == "remove-d" || edit == "remove-y" || edit == "kty-symmetric") && pe == nil {
				c.Fail("C15/signer-without-private", fmt.Sprintf("a key object edited after use (%s) still yields a private key", edit), rep)
			}
		}
	}
	// byte-valued parameters (x, y, d, k, kid, base IV) given as text strings of the same length, and key_ops outside
	// the registry on otherwise usable keys
	for i := 0; i < 40; i++ {
		var t *W
		ci := pick(r, curves)
		switch i % 3 {
		case 0:
			k, _ := ecdsa.GenerateKey(ci.curve, r)
			ck, _ := cose.NewKeyFromPrivate(k)
			ck.ID = []byte("kid-1")
			b, _ := ck.MarshalCBOR()
			t, _ = refParseFull(b)
		case 1:
			_, priv, _ := ed25519.GenerateKey(r)
			ck, _ := cose.NewKeyFromPrivate(priv)
			if i%2 == 0 {
				delete(ck.Params, int64(-4)) // public half only
			}
			b, _ := ck.MarshalCBOR()
			t, _ = refParseFull(b)
		default:
			t = genKeyTree(r)
		}
		if t == nil || t.Maj != 5 {
			continue
		}
		for j := 0; j+1 < len(t.Kids); j += 2 {
			lab, val := t.Kids[j], t.Kids[j+1]
			if val.Maj == 2 && (lab.Maj == 1 || (lab.Maj == 0 && (lab.Val == 2 || lab.Val == 5))) {
				m := t.Clone()
				txt := bytes.Repeat([]byte("k"), len(val.Str))
				m.Kids[j+1] = wTstr(string(txt), -1)
				c15One(c, "text-for-bytes", m.Ser())
			}
			if lab.Maj == 0 && lab.Val == 4 {
				continue
			}
		}
		for _, ops := range [][]int64{{65}, {66}, {3, 129}, {-63}, {-62, 64}, {1<<32 + 1}} {
			m := t.Clone()
			var ow []*W
			for _, o := range ops {
				ow = append(ow, wInt(o, -1))
			}
			replaced := false
			for j := 0; j+1 < len(m.Kids); j += 2 {
				if m.Kids[j].Maj == 0 && m.Kids[j].Val == 4 {
					m.Kids[j+1] = wArr(-1, ow...)
					replaced = true
				}
			}
			if !replaced {
				m.Kids = append(m.Kids, wInt(4, -1), wArr(-1, ow...))
			}
			c15One(c, "unregistered-key-ops", m.Ser())
		}
	}
	// every curve id under both key types with well-sized material, with and without alg: complete keys that differ
	// from a usable one only in the curve / algorithm pairing
	for _, kty := range []int64{1, 2} {
		for crv := int64(0); crv <= 8; crv++ {
			for _, alg := range []*W{nil, wInt(-8, -1), wInt(-7, -1), wInt(-35, -1)} {
				for _, withD := range []bool{false, true} {
					size := 32
					if kty == 2 && crv == 2 {
						size = 48
					} else if kty == 2 && crv == 3 {
						size = 66
					}
					kv := []*W{wInt(1, -1), wInt(kty, -1), wInt(-1, -1), wInt(crv, -1), wInt(-2, -1), wBstr(bytes.Repeat([]byte{0x11}, size), -1)}
					if kty == 2 {
						kv = append(kv, wInt(-3, -1), wBstr(bytes.Repeat([]byte{0x22}, size), -1))
					}
					if withD {
						kv = append(kv, wInt(-4, -1), wBstr(bytes.Repeat([]byte{0x33}, size), -1))
					}
					if alg != nil {
						kv = append(kv, wInt(3, -1), alg)
					}
					c15One(c, "curve-pairing", wMap(-1, kv...).Ser())
				}
			}
		}
	}
	// corpus of earlier findings
	for _, hx := range []string{"a201022061", "a20102206161", "a3010220010480", "a401012006215820" + zeros(32) + "0480", "a1d9d9f7011863", "d8636161", "d863a10104",
		"a30101200623" + "5840" + zeros(64), "a30101200623" + "50" + zeros(16), "a3010120062358" + "21" + zeros(33), "a401012006215840" + zeros(64) + "235820" + zeros(32)} {
		c15One(c, "corpus", unhex(hx))
	}
}

func zeros(n int) string {
	s := ""
	for i := 0; i < n; i++ {
		s += "00"
	}
	return s
}

// c15Dest is one Key value that every input of the run is also decoded into, as an application that
// reuses a variable (or walks a key set) does: what it holds after an accepted decode must be the key just
// decoded, nothing left over from earlier ones.
var c15Dest cose.Key
var c15Prev string

func c15One(c *Collector, class string, data []byte) {
	d := decodeCase(c, "decode/"+class, "DKey", data)
	rep := map[string]any{"data": hx(data)}
	{
		var err2 error
		p, _ := protect(func() { err2 = c15Dest.UnmarshalCBOR(append([]byte{}, data...)) })
		if !p && !d.paniced {
			if (err2 == nil) != (d.err == nil) {
				c.Fail("C15/decode-depends-on-destination", fmt.Sprintf("decoding into a used Key gives %v, into a fresh one %v", err2, d.err), map[string]any{"data": hx(data), "previous": c15Prev})
			} else if err2 == nil {
				if got := oKey(&c15Dest); got != d.value {
					c.Fail("C15/decode-depends-on-destination", "a Key decoded into a used variable differs from the same bytes decoded into a fresh one: "+trunc(got, 300)+" vs "+trunc(d.value, 300), map[string]any{"data": hx(data), "previous": c15Prev})
				}
				c15Prev = hx(data)
			}
		}
	}
	if d.paniced || d.err != nil {
		return
	}
	k := d.key
	// --- consistency conditions, checked independently on the accepted value ---
	if k.Type == 0 {
		c.Fail("C15/reserved-kty", "accepted a key with the reserved key type 0", rep)
	}
	w, perr := refParseFull(data)
	for perr == nil && w.Maj == 6 {
		w = w.Kids[0]
	}
	if perr == nil && w.Maj == 5 {
		seen := map[string]bool{}
		for i := 0; i+1 < len(w.Kids); i += 2 {
			kk := w.Kids[i]
			if kk.Maj == 6 && kk.Val == 55799 {
				c.Fail("C15/selfdescribed-tag-stripped", "accepted a COSE_Key whose label is wrapped in tag 55799", rep)
				continue
			}
			if !(kk.Maj == 0 || kk.Maj == 1 || kk.Maj == 3) {
				c.Fail("C15/label-type", fmt.Sprintf("accepted a key with a label that is not int/tstr: %x", kk.Ser()), rep)
			}
			if seen[refKeyID(kk)] {
				c.Fail("C15/duplicate-label", "accepted a key with a duplicate label", rep)
			}
			seen[refKeyID(kk)] = true
		}
	}
	size := map[cose.Curve]int{cose.CurveP256: 32, cose.CurveP384: 48, cose.CurveP521: 66}
	derived := cose.Algorithm(0)
	switch k.Type {
	case cose.KeyTypeEC2:
		crv, x, y, dd := k.EC2()
		if crv == 0 || crv == cose.CurveX25519 || crv == cose.CurveX448 || crv == cose.CurveEd25519 || crv == cose.CurveEd448 {
			c.Fail("C15/curve-for-kty", fmt.Sprintf("accepted an EC2 key with curve %v", crv), rep)
		}
		if s := size[crv]; s > 0 && (len(x) > s || len(y) > s || len(dd) > s) {
			c.Fail("C15/coordinate-size", "accepted an EC2 key with a coordinate longer than the field size", rep)
		}
		derived = map[cose.Curve]cose.Algorithm{cose.CurveP256: -7, cose.CurveP384: -35, cose.CurveP521: -36}[crv]
	case cose.KeyTypeOKP:
		crv, x, dd := k.OKP()
		if crv == 0 || crv == cose.CurveP256 || crv == cose.CurveP384 || crv == cose.CurveP521 {
			c.Fail("C15/curve-for-kty", fmt.Sprintf("accepted an OKP key with curve %v", crv), rep)
		}
		if (len(x) > 0 && len(x) != 32) || (len(dd) > 0 && len(dd) != 32) {
			c.Fail("C15/coordinate-size", "accepted an OKP key with a coordinate of the wrong size", rep)
		}
		if crv == cose.CurveEd25519 {
			derived = cose.AlgorithmEdDSA
		}
	}
	if (k.Type == cose.KeyTypeEC2 || k.Type == cose.KeyTypeOKP) && derived != 0 && perr == nil && w.Maj == 5 {
		for i := 0; i+1 < len(w.Kids); i += 2 {
			if kk, v := w.Kids[i], w.Kids[i+1]; kk.Maj == 0 && kk.Val == 3 {
				if v.Maj == 6 && v.Val == 55799 {
					c.Fail("C15/selfdescribed-tag-stripped", "accepted a COSE_Key whose alg value is wrapped in tag 55799", rep)
					continue
				}
				matches := (v.Maj == 0 && int64(v.Val) == int64(derived)) || (v.Maj == 1 && -1-int64(v.Val) == int64(derived))
				reservedZero := v.Maj == 0 && v.Val == 0 // the reserved value 0 is this library's spelling of "no algorithm"
				if !matches && !reservedZero {
					c.Fail("C15/alg-curve-mismatch", fmt.Sprintf("accepted a key whose alg parameter is %x; its curve fixes %v", v.Ser(), derived), rep)
				}
			}
		}
	}
	if (k.Type == cose.KeyTypeEC2 || k.Type == cose.KeyTypeOKP) && k.Algorithm != 0 && k.Algorithm != derived {
		c.Fail("C15/alg-curve-mismatch", fmt.Sprintf("accepted alg %v on a key whose curve implies %v", k.Algorithm, derived), rep)
	}
	// --- canonical re-encoding ---
	if d.reerr != nil {
		c.Fail("C15/reencode-refused", "an accepted key cannot be encoded: "+d.reerr.Error(), rep)
	} else {
		d2 := decodeKind("DKey", d.reenc)
		if d2.err != nil || d2.reerr != nil || !bytes.Equal(d2.reenc, d.reenc) {
			c.Fail("C15/reencode-unstable", fmt.Sprintf("re-encoded key %x does not decode to the same canonical bytes (%v)", d.reenc, d2.err), rep)
		} else if d2.key != nil {
			// ... and to the same key: it grants what the received key grants, no more (a public point or private
			// material that was not there is not there afterwards either)
			cls := func(kk *cose.Key) string {
				_, e1 := kk.Signer()
				_, e2 := kk.Verifier()
				_, e3 := kk.PublicKey()
				_, e4 := kk.PrivateKey()
				return fmt.Sprint(e1 == nil, e2 == nil, e3 == nil, e4 == nil)
			}
			var a, b string
			if p, _ := protect(func() { a, b = cls(k), cls(d2.key) }); !p && a != b {
				c.Fail("C15/reencode-unstable", fmt.Sprintf("the received key grants (signer, verifier, public key, private key) = %s, the key decoded from its re-encoding %x grants %s", a, d.reenc, b), rep)
			}
		}
	}
	// --- signer / verifier restrictions ---
	hasOp := func(op cose.KeyOp) bool {
		if k.Ops == nil {
			return !opsPresentOnWire(data)
		}
		for _, o := range k.Ops {
			if o == op {
				return true
			}
		}
		return false
	}
	op, obs, sg, serr, p := execKeySigner(k)
	if p {
		c.Fail("C06/panic-followup/Key.Signer", "Key.Signer panicked", rep)
	} else {
		addCase(c, "signer/"+class, op, obs, serr == nil)
		if serr == nil {
			dd := wireBytesParam(data, -4) // private material: the byte string under label -4 of the received key
			switch {
			case k.Type != cose.KeyTypeEC2 && k.Type != cose.KeyTypeOKP:
				c.Fail("C15/signer-for-unsupported-key", fmt.Sprintf("Signer() granted for key type %v", k.Type), rep)
			case len(dd) == 0:
				c.Fail("C15/signer-without-private", "Signer() granted without private material", rep)
			case !hasOp(cose.KeyOpSign):
				c.Fail("C15/signer-ignores-key-ops", "Signer() granted although key_ops is present and lacks sign", rep)
			case sg.Algorithm() != derived:
				c.Fail("C15/signer-algorithm", fmt.Sprintf("signer algorithm %v is not the one fixed by the key (%v)", sg.Algorithm(), derived), rep)
			}
		} else if k.Ops != nil && !hasOp(cose.KeyOpSign) && !errors.Is(serr, cose.ErrOpNotSupported) {
			c.Fail("C15/signer-error", "key_ops without sign not reported as ErrOpNotSupported: "+serr.Error(), rep)
		}
	}
	op, obs, vf, verr, p := execKeyVerifier(k)
	if p {
		c.Fail("C06/panic-followup/Key.Verifier", "Key.Verifier panicked", rep)
	} else {
		addCase(c, "verifier/"+class, op, obs, verr == nil)
		if verr == nil {
			switch {
			case k.Type != cose.KeyTypeEC2 && k.Type != cose.KeyTypeOKP:
				c.Fail("C15/verifier-for-unsupported-key", fmt.Sprintf("Verifier() granted for key type %v", k.Type), rep)
			case !hasOp(cose.KeyOpVerify):
				c.Fail("C15/verifier-ignores-key-ops", "Verifier() granted although key_ops is present and lacks verify", rep)
			case vf.Algorithm() != derived:
				c.Fail("C15/verifier-algorithm", fmt.Sprintf("verifier algorithm %v is not the one fixed by the key (%v)", vf.Algorithm(), derived), rep)
			}
			if x, y := wireBytesParam(data, -2), wireBytesParam(data, -3); len(x) == 0 || (k.Type == cose.KeyTypeEC2 && len(y) == 0) {
				c.Fail("C15/verifier-without-public", "Verifier() granted without the public point (byte strings under -2 / -3 of the received key)", rep)
			}
		}
	}
}

// wireBytesParam: the content of the byte string stored under a negative label of the COSE_Key bytes (independent
// reader); nil if the label is absent or its value is not a byte string
func wireBytesParam(data []byte, label int64) []byte {
	w, err := refParseFull(data)
	for err == nil && w.Maj == 6 {
		w = w.Kids[0]
	}
	if err != nil || w.Maj != 5 {
		return nil
	}
	for i := 0; i+1 < len(w.Kids); i += 2 {
		kk, vv := w.Kids[i], w.Kids[i+1]
		for kk.Maj == 6 && kk.Val == 55799 {
			kk = kk.Kids[0]
		}
		for vv.Maj == 6 && vv.Val == 55799 {
			vv = vv.Kids[0]
		}
		if kk.Maj == 1 && -1-int64(kk.Val) == label && vv.Maj == 2 {
			return vv.Str
		}
	}
	return nil
}

// opsPresentOnWire: is label 4 present in the COSE_Key bytes (independent reader)
func opsPresentOnWire(data []byte) bool {
	w, err := refParseFull(data)
	for err == nil && w.Maj == 6 {
		w = w.Kids[0]
	}
	if err != nil || w.Maj != 5 {
		return false
	}
	for i := 0; i+1 < len(w.Kids); i += 2 {
		if w.Kids[i].Maj == 0 && w.Kids[i].Val == 4 {
			return true
		}
	}
	return false
}

// ---------- C17 ----------

type foreignSigner struct{ pub crypto.PublicKey }

func (f foreignSigner) Public() crypto.PublicKey { return f.pub }
func (f foreignSigner) Sign(io.Reader, []byte, crypto.SignerOpts) ([]byte, error) {
	return nil, errScripted
}

type foreignPub struct{}

func runC17(c *Collector, r *Rng, thorough bool) {
	c.Rule = "exhaustive matrix: algorithms {7 built-in, RS256/384/512, reserved 0, unknown ids} x keys {RSA 1024 / 2047 / 2048 / 3072, ECDSA P-224 / P-256 / P-384 / P-521, off-curve point, point at infinity, Ed25519, foreign crypto.Signer / public key types, nil}: NewSigner / NewVerifier succeed exactly for matching adequate keys, report the requested algorithm, fail with the documented sentinel errors; compared with the Coq model; digest equivalence: Sign vs SignDigest and Verify vs VerifyDigest agree under the algorithm's hash and under no other hash, on random messages with real RSA / ECDSA keys; non-trivial = constructor reached the key check; distinct by (alg, key kind)"
	c.Exhaustive = true
	kr := NewRng(777)
	rsaKey := func(bits int) *rsa.PrivateKey {
		for {
			k, err := rsa.GenerateKey(kr, bits)
			if err != nil {
				panic(err)
			}
			if k.N.BitLen() == bits {
				return k
			}
		}
	}
	type keyCase struct {
		name   string
		priv   crypto.Signer
		pub    crypto.PublicKey
		desc   string // Coq keydesc for the signer side
		vdesc  string // for the verifier side
		family string
		bits   int
	}
	var keysC []keyCase
	rsaBits := []int{1024, 2047, 2048}
	if thorough {
		rsaBits = append(rsaBits, 2041, 3072)
	}
	for _, b := range rsaBits {
		k := rsaKey(b)
		keysC = append(keysC, keyCase{fmt.Sprintf("RSA-%d", b), k, &k.PublicKey, fmt.Sprintf("(KRSA %d)", b), fmt.Sprintf("(KRSA %d)", b), "rsa", b})
		// the same key behind a crypto.Signer that is not *rsa.PrivateKey (HSM / KMS adapter): same verdicts
		keysC = append(keysC, keyCase{fmt.Sprintf("RSA-%d-wrapped", b), foreignSigner{&k.PublicKey}, &k.PublicKey, fmt.Sprintf("(KRSA %d)", b), fmt.Sprintf("(KRSA %d)", b), "rsa", b})
	}
	for _, cv := range []elliptic.Curve{elliptic.P224(), elliptic.P256(), elliptic.P384(), elliptic.P521()} {
		k, _ := ecdsa.GenerateKey(cv, kr)
		valid := cv != elliptic.P224()
		keysC = append(keysC, keyCase{"ECDSA-" + cv.Params().Name, k, &k.PublicKey, "(KECDSA true)", fmt.Sprintf("(KECDSA %v)", valid), "ecdsa", 0})
	}
	{
		k, _ := ecdsa.GenerateKey(elliptic.P256(), kr)
		off := &ecdsa.PublicKey{Curve: elliptic.P256(), X: new(big.Int).Add(k.X, big.NewInt(1)), Y: k.Y}
		keysC = append(keysC, keyCase{"ECDSA-off-curve", foreignSigner{off}, off, "(KECDSA false)", "(KECDSA false)", "ecdsa", 0})
		inf := &ecdsa.PublicKey{Curve: elliptic.P256(), X: big.NewInt(0), Y: big.NewInt(0)}
		keysC = append(keysC, keyCase{"ECDSA-infinity", foreignSigner{inf}, inf, "(KECDSA false)", "(KECDSA false)", "ecdsa", 0})
		// coordinates of a valid point with the sign flipped: not a point of the curve
		for ni, neg := range []*ecdsa.PublicKey{
			{Curve: elliptic.P256(), X: new(big.Int).Neg(k.X), Y: k.Y}, {Curve: elliptic.P256(), X: k.X, Y: new(big.Int).Neg(k.Y)}, {Curve: elliptic.P256(), X: new(big.Int).Neg(k.X), Y: new(big.Int).Neg(k.Y)},
			{Curve: elliptic.P256(), X: new(big.Int).Add(k.X, elliptic.P256().Params().P), Y: k.Y}} {
			keysC = append(keysC, keyCase{fmt.Sprintf("ECDSA-negative-or-unreduced-%d", ni), foreignSigner{neg}, neg, "(KECDSA false)", "(KECDSA false)", "ecdsa", 0})
		}
		// a crypto.Signer that is not *ecdsa.PrivateKey but has an ECDSA public key
		keysC = append(keysC, keyCase{"ECDSA-P-256-wrapped", foreignSigner{&k.PublicKey}, &k.PublicKey, "(KECDSA true)", "(KECDSA true)", "ecdsa", 0})
	}
	edPub, edPriv, _ := ed25519.GenerateKey(kr)
	keysC = append(keysC, keyCase{"Ed25519", edPriv, edPub, "KEd25519", "KEd25519", "ed", 0})
	// the same key behind crypto.Signers that are not literally ed25519.PrivateKey (a wrapper value, a pointer)
	keysC = append(keysC, keyCase{"Ed25519-wrapped", opaqueSigner{edPriv}, edPub, "KEd25519", "KEd25519", "ed", 0})
	keysC = append(keysC, keyCase{"Ed25519-pointer", &edPriv, edPub, "KEd25519", "KEd25519", "ed", 0})
	keysC = append(keysC, keyCase{"foreign", foreignSigner{foreignPub{}}, foreignPub{}, "KForeign", "KForeign", "foreign", 0})
	keysC = append(keysC, keyCase{"foreign-nilpub", foreignSigner{nil}, nil, "KForeign", "KForeign", "foreign", 0})
	// by-value public key types are not accepted either
	keysC = append(keysC, keyCase{"rsa-by-value", foreignSigner{rsa.PublicKey{}}, rsa.PublicKey{}, "KForeign", "KForeign", "foreign", 0})

	algs := []cose.Algorithm{-37, -38, -39, -7, -35, -36, -8, -257, -258, -259, 0, 1, -1, -16, -43, -44, -65535, 99999}
	family := func(a cose.Algorithm) string {
		switch a {
		case -37, -38, -39:
			return "rsa"
		case -7, -35, -36:
			return "ecdsa"
		case -8:
			return "ed"
		}
		return "none"
	}
	for _, a := range algs {
		for _, kc := range keysC {
			rep := map[string]any{"alg": int64(a), "key": kc.name}
			// --- NewSigner ---
			var sg cose.Signer
			var err error
			if p, v := protect(func() { sg, err = cose.NewSigner(a, kc.priv) }); p {
				c.Fail("C17/panic", fmt.Sprint("NewSigner panicked: ", v), rep)
			} else {
				obs := ""
				if err != nil {
					obs = oErr(err)
				} else {
					obs = oOk(oZ(int64(sg.Algorithm())))
				}
				c.Add("newsigner/"+kc.name, fmt.Sprintf("OpNewSigner %s %s", cZ(int64(a)), kc.desc), obs, true)
				want := family(a) != "none" && family(a) == kc.family && !(kc.family == "rsa" && kc.bits < 2048)
				if (err == nil) != want {
					c.Fail("C17/newsigner-verdict", fmt.Sprintf("NewSigner(%v, %s) error=%v, expected success=%v", a, kc.name, err, want), rep)
				}
				if err == nil && sg.Algorithm() != a {
					c.Fail("C17/signer-algorithm", "signer reports another algorithm than requested", rep)
				}
				if family(a) == "none" && !errors.Is(err, cose.ErrAlgorithmNotSupported) {
					c.Fail("C17/error-class", "reserved/RS*/unknown algorithm not reported as ErrAlgorithmNotSupported", rep)
				}
				if family(a) != "none" && family(a) != kc.family && !errors.Is(err, cose.ErrInvalidPubKey) {
					c.Fail("C17/error-class", fmt.Sprintf("mismatching key not reported as ErrInvalidPubKey: %v", err), rep)
				}
			}
			// --- NewVerifier ---
			var vf cose.Verifier
			if p, v := protect(func() { vf, err = cose.NewVerifier(a, kc.pub) }); p {
				c.Fail("C17/panic", fmt.Sprint("NewVerifier panicked: ", v), rep)
				continue
			}
			obs := ""
			if err != nil {
				obs = oErr(err)
			} else {
				obs = oOk(oZ(int64(vf.Algorithm())))
			}
			c.Add("newverifier/"+kc.name, fmt.Sprintf("OpNewVerifier %s %s", cZ(int64(a)), kc.vdesc), obs, true)
			want := family(a) != "none" && family(a) == kc.family && !(kc.family == "rsa" && kc.bits < 2048) && kc.vdesc != "(KECDSA false)"
			if (err == nil) != want {
				c.Fail("C17/newverifier-verdict", fmt.Sprintf("NewVerifier(%v, %s) error=%v, expected success=%v", a, kc.name, err, want), rep)
			}
			if err == nil && vf.Algorithm() != a {
				c.Fail("C17/verifier-algorithm", "verifier reports another algorithm than requested", rep)
			}
		}
	}
	// --- the decision depends on the key's present contents only: the same key object offered again after it was
	// changed in place gets the verdict a fresh object with those contents gets ---
	verdictOf := func(err error) string {
		if err == nil {
			return "ok"
		}
		return "err:" + errClass(err)
	}
	for _, cv := range []elliptic.Curve{elliptic.P256(), elliptic.P384(), elliptic.P521()} {
		for _, a := range []cose.Algorithm{-7, -35, -36} {
			k, _ := ecdsa.GenerateKey(cv, kr)
			pub := &ecdsa.PublicKey{Curve: cv, X: new(big.Int).Set(k.X), Y: new(big.Int).Set(k.Y)}
			_, e0 := cose.NewVerifier(a, pub)
			steps := []struct {
				name string
				mut  func()
			}{
				{"y+1 (off curve)", func() { pub.Y = new(big.Int).Add(pub.Y, big.NewInt(1)) }},
				{"(0,0)", func() { pub.X, pub.Y = big.NewInt(0), big.NewInt(0) }},
				{"P-224", func() {
					k2, _ := ecdsa.GenerateKey(elliptic.P224(), kr)
					pub.Curve, pub.X, pub.Y = elliptic.P224(), k2.X, k2.Y
				}},
				{"valid again", func() { pub.Curve, pub.X, pub.Y = cv, new(big.Int).Set(k.X), new(big.Int).Set(k.Y) }},
			}
			for _, st := range steps {
				st.mut()
				fresh := &ecdsa.PublicKey{Curve: pub.Curve, X: new(big.Int).Set(pub.X), Y: new(big.Int).Set(pub.Y)}
				_, eSame := cose.NewVerifier(a, pub)
				_, eFresh := cose.NewVerifier(a, fresh)
				c.Eval("reoffered-key/"+cv.Params().Name, fmt.Sprint(a, st.name), true)
				if verdictOf(eSame) != verdictOf(eFresh) {
					c.Fail("C17/verdict-depends-on-history", fmt.Sprintf("NewVerifier(%v) on a key object accepted earlier (%v) and then changed in place to %s: %v; a fresh object with the same contents: %v", a, e0, st.name, eSame, eFresh), map[string]any{"curve": cv.Params().Name, "alg": int64(a)})
				}
			}
		}
	}
	{
		good, small := rsaKey(2048), rsaKey(1024)
		pub := &rsa.PublicKey{N: new(big.Int).Set(good.N), E: good.E}
		priv := *good
		for _, a := range []cose.Algorithm{-37, -38, -39} {
			cose.NewVerifier(a, pub)
			cose.NewSigner(a, &priv)
		}
		pub.N = small.N
		priv = *small
		for _, a := range []cose.Algorithm{-37, -38, -39} {
			_, e1 := cose.NewVerifier(a, pub)
			_, e2 := cose.NewVerifier(a, &rsa.PublicKey{N: small.N, E: small.E})
			_, e3 := cose.NewSigner(a, &priv)
			_, e4 := cose.NewSigner(a, small)
			c.Eval("reoffered-key/rsa", fmt.Sprint(a), true)
			if verdictOf(e1) != verdictOf(e2) || verdictOf(e3) != verdictOf(e4) {
				c.Fail("C17/verdict-depends-on-history", fmt.Sprintf("RSA key object accepted earlier and then replaced in place by a 1024-bit key: verifier %v (fresh: %v), signer %v (fresh: %v)", e1, e2, e3, e4), map[string]any{"alg": int64(a)})
			}
		}
	}
	// --- a crypto.Signer that is not *ecdsa.PrivateKey (HSM / KMS adapter): for every algorithm x curve the library
	// allows, it is handed the digest of the message under the ALGORITHM's hash, and the result verifies ---
	for _, cv := range []elliptic.Curve{elliptic.P256(), elliptic.P384(), elliptic.P521()} {
		k, _ := ecdsa.GenerateKey(cv, kr)
		for _, a := range []cose.Algorithm{-7, -35, -36} {
			rec := &recordingSigner{key: k}
			sg, err := cose.NewSigner(a, rec)
			if err != nil {
				continue
			}
			msg := r.Bytes(1 + r.Intn(100))
			sig, serr := sg.Sign(r, msg)
			if serr == nil {
				keep := append([]byte{}, sig...)
				if _, err := sg.Sign(r, append([]byte("another message "), msg...)); err == nil && !bytes.Equal(sig, keep) {
					c.Fail("C17/earlier-signature-changed", "a signature made through a crypto.Signer changed when the same signer signed another message", map[string]any{"curve": cv.Params().Name, "alg": int64(a)})
					sig = keep
				}
				rec.digests = rec.digests[:1]
			}
			c.Eval("opaque-signer-digest/"+cv.Params().Name, fmt.Sprint(a), true)
			rep := map[string]any{"curve": cv.Params().Name, "alg": int64(a), "msg": hx(msg)}
			if serr != nil {
				c.Fail("C17/digest-sign-failed", "Sign through a crypto.Signer failed: "+serr.Error(), rep)
				continue
			}
			want := digestOf(algHash(a), msg)
			if len(rec.digests) != 1 || !bytes.Equal(rec.digests[0], want) {
				c.Fail("C17/digest-equivalence", fmt.Sprintf("the crypto.Signer was handed %x, the message digest under the algorithm's hash %v is %x", rec.digests, algHash(a), want), rep)
			}
			if vf, err := cose.NewVerifier(a, &k.PublicKey); err == nil {
				if vf.Verify(msg, sig) != nil {
					c.Fail("C17/digest-equivalence", "a signature made through a crypto.Signer does not verify with the verifier of the same algorithm and key", rep)
				}
				if ds, ok := sg.(cose.DigestSigner); ok {
					if s2, err := ds.SignDigest(r, want); err != nil || vf.Verify(msg, s2) != nil {
						c.Fail("C17/digest-equivalence", "SignDigest(H(m)) through a crypto.Signer does not verify as a signature of m", rep)
					}
				}
			}
		}
	}
	// --- an RSA key behind an opaque crypto.Signer: same signatures as with the key itself (salt length = digest length) ---
	for _, k := range opaqueKeySet(r) {
		if _, ok := k.pub.(*rsa.PublicKey); !ok {
			continue
		}
		sg, vf := k.signer(), k.verifier()
		msg := r.Bytes(1 + r.Intn(100))
		rep := map[string]any{"alg": k.alg.String(), "key": k.name, "msg": hx(msg)}
		c.Eval("opaque-signer-rsa/"+k.alg.String(), hx(msg), true)
		sig, err := sg.Sign(r, msg)
		if err != nil {
			c.Fail("C17/digest-sign-failed", "Sign through an opaque RSA crypto.Signer failed: "+err.Error(), rep)
			continue
		}
		digest := digestOf(algHash(k.alg), msg)
		if vf.Verify(msg, sig) != nil || vf.(cose.DigestVerifier).VerifyDigest(digest, sig) != nil {
			c.Fail("C17/digest-equivalence", "a signature made through an opaque RSA crypto.Signer does not verify with the verifier of the same algorithm and key", rep)
		}
		if pub, ok := k.pub.(*rsa.PublicKey); ok { // the RFC 8230 parameters: MGF1 with the same hash, salt as long as the digest
			if rsa.VerifyPSS(pub, algHash(k.alg), digest, sig, &rsa.PSSOptions{SaltLength: rsa.PSSSaltLengthEqualsHash}) != nil {
				c.Fail("C17/digest-equivalence", "a signature made through an opaque RSA crypto.Signer is not RSASSA-PSS with salt length = digest length", rep)
			}
		}
		if ds, ok := sg.(cose.DigestSigner); ok {
			if s2, err := ds.SignDigest(r, digest); err != nil || vf.Verify(msg, s2) != nil {
				c.Fail("C17/digest-equivalence", "SignDigest(H(m)) through an opaque RSA crypto.Signer does not verify as a signature of m", rep)
			}
		}
	}
	// --- an Ed25519 key behind an opaque crypto.Signer: accepted, and its signatures verify ---
	{
		pub, priv, _ := ed25519.GenerateKey(r)
		for name, ks := range map[string]crypto.Signer{"wrapper value": opaqueSigner{priv}, "pointer": &priv} {
			rep := map[string]any{"key": "Ed25519 behind a " + name}
			c.Eval("opaque-signer-ed25519", name, true)
			sg, err := cose.NewSigner(cose.AlgorithmEdDSA, ks)
			if err != nil {
				c.Fail("C17/newsigner-verdict", "NewSigner(EdDSA) refused a crypto.Signer whose public key is an ed25519.PublicKey: "+err.Error(), rep)
				continue
			}
			msg := r.Bytes(1 + r.Intn(100))
			sig, err := sg.Sign(r, msg)
			if err != nil || !ed25519.Verify(pub, msg, sig) {
				c.Fail("C17/digest-equivalence", fmt.Sprintf("a signature made through an opaque Ed25519 crypto.Signer is not a valid Ed25519 signature (%v)", err), rep)
			}
		}
	}
	// --- signers of the three PSS algorithms (and of the three ES algorithms) at work at the same time, as in a service
	// that signs for several tenants: every signature is under its own signer's hash ---
	{
		var ks []realKey
		for _, k := range append(append([]realKey{}, realKeySet(r)...), opaqueKeySet(r)...) {
			if k.alg != cose.AlgorithmEdDSA {
				ks = append(ks, k)
			}
		}
		var wg sync.WaitGroup
		var mu sync.Mutex
		bad := map[string]int{}
		rounds := 25
		if thorough {
			rounds = 200
		}
		for g := 0; g < 2*len(ks); g++ {
			wg.Add(1)
			go func(g int) {
				defer wg.Done()
				k := ks[g%len(ks)]
				sg := k.signer()
				for i := 0; i < rounds; i++ {
					msg := []byte{byte(g), byte(i), 'm'}
					var sig []byte
					var err error
					if p, _ := protect(func() { sig, err = sg.Sign(crand.Reader, msg) }); p || err != nil {
						mu.Lock()
						bad[fmt.Sprintf("%s (%v): Sign failed or panicked: %v", k.name, k.alg, err)]++
						mu.Unlock()
						continue
					}
					if !refVerify(k.alg, k.pub, msg, sig) {
						mu.Lock()
						bad[fmt.Sprintf("%s (%v): the signature is not valid under the signer's algorithm", k.name, k.alg)]++
						mu.Unlock()
					}
				}
			}(g)
		}
		wg.Wait()
		c.Eval("signers-of-several-algorithms-at-once", fmt.Sprint(len(ks), rounds), true)
		if len(bad) > 0 {
			c.Fail("C17/digest-equivalence", fmt.Sprintf("signers of different algorithms used at the same time: %v", bad), map[string]any{"signers": len(ks)})
		}
	}
	// --- two RSA signers of different PSS algorithms whose opaque keys (an HSM round trip takes its time) are inside
	// Sign at the same moment: each key is handed its own algorithm's options together with its own digest ---
	{
		rk, _ := realKeySet(r)[4].priv.(*rsa.PrivateKey)
		for _, pair := range [][2]cose.Algorithm{{cose.AlgorithmPS256, cose.AlgorithmPS512}, {cose.AlgorithmPS384, cose.AlgorithmPS256}, {cose.AlgorithmPS512, cose.AlgorithmPS384}} {
			if rk == nil {
				break
			}
			for _, useDigest := range []bool{false, true} {
				meet := &meetingPoint{need: 2}
				var wg sync.WaitGroup
				errs := make([]string, 2)
				for i := 0; i < 2; i++ {
					wg.Add(1)
					go func(i int) {
						defer wg.Done()
						alg := pair[i]
						ms := &meetingSigner{real: rk, meet: meet}
						sg, err := cose.NewSigner(alg, ms)
						if err != nil {
							errs[i] = "NewSigner: " + err.Error()
							meet.arrive()
							return
						}
						msg := []byte{byte(i), 'm'}
						var sig []byte
						p, _ := protect(func() {
							if ds, ok := sg.(cose.DigestSigner); ok && useDigest {
								sig, err = ds.SignDigest(crand.Reader, digestOf(algHash(alg), msg))
							} else {
								sig, err = sg.Sign(crand.Reader, msg)
							}
						})
						switch {
						case p:
							errs[i] = "panicked"
						case err != nil:
							errs[i] = err.Error()
						case ms.seen != "":
							errs[i] = ms.seen
						case !refVerify(alg, &rk.PublicKey, msg, sig):
							errs[i] = "the signature is not valid under " + alg.String()
						}
					}(i)
				}
				wg.Wait()
				c.Eval("two-pss-signers-inside-sign", fmt.Sprint(pair, useDigest), true)
				for i, e := range errs {
					if e != "" {
						c.Fail("C17/digest-equivalence", fmt.Sprintf("a %v signer whose key was inside Sign at the same time as the key of a %v signer: %s", pair[i], pair[1-i], e), map[string]any{"algorithms": fmt.Sprint(pair), "sign_digest": useDigest})
					}
				}
			}
		}
	}
	// --- one verifier (and one signer) shared by goroutines that use the message entry point and the digest entry point
	// at the same time on large contents: the two stay equivalent, every valid signature verifies through both ---
	for _, k := range realKeySet(r) {
		if k.alg == cose.AlgorithmEdDSA {
			continue
		}
		sg, vf := k.signer(), k.verifier()
		dv, ok := vf.(cose.DigestVerifier)
		if !ok {
			continue
		}
		type item struct{ msg, digest, sig []byte }
		var items []item
		for i := 0; i < 3; i++ {
			msg := r.Bytes(256*1024 + i)
			sig, err := sg.Sign(r, msg)
			if err != nil {
				break
			}
			items = append(items, item{msg, digestOf(algHash(k.alg), msg), sig})
		}
		if len(items) == 0 {
			continue
		}
		var wg sync.WaitGroup
		var mu sync.Mutex
		bad := map[string]int{}
		for g := 0; g < 12; g++ {
			wg.Add(1)
			go func(g int) {
				defer wg.Done()
				for rd := 0; rd < 6; rd++ {
					it := items[(g+rd)%len(items)]
					var e1, e2 error
					p, _ := protect(func() { e1 = vf.Verify(it.msg, it.sig); e2 = dv.VerifyDigest(it.digest, it.sig) })
					if p || e1 != nil || e2 != nil {
						mu.Lock()
						bad[fmt.Sprintf("Verify=%v VerifyDigest=%v panicked=%v", e1, e2, p)]++
						mu.Unlock()
					}
				}
			}(g)
		}
		wg.Wait()
		c.Eval("shared-verifier-both-entry-points/"+k.alg.String(), k.name, true)
		if len(bad) > 0 {
			c.Fail("C17/digest-equivalence", fmt.Sprintf("one %v verifier shared by 12 goroutines (256 KiB contents): valid signatures gave %v", k.alg, bad), map[string]any{"alg": k.alg.String(), "key": k.name})
		}
	}
	// --- the signer built over an opaque key offers the digest entry point like the one built over the key itself ---
	for _, k := range opaqueKeySet(r) {
		sg := k.signer()
		c.Eval("opaque-signer-has-digest-entry-point/"+k.alg.String(), k.name, true)
		ds, ok := sg.(cose.DigestSigner)
		if !ok {
			c.Fail("C17/no-digest-interface", fmt.Sprintf("the %v signer built over an opaque crypto.Signer (%T) has no SignDigest: signing a message cannot be compared with signing its digest", k.alg, sg), map[string]any{"alg": k.alg.String(), "key": k.name})
			continue
		}
		msg := r.Bytes(50)
		if sig, err := ds.SignDigest(r, digestOf(algHash(k.alg), msg)); err != nil || k.verifier().Verify(msg, sig) != nil {
			c.Fail("C17/digest-equivalence", fmt.Sprintf("SignDigest(H(m)) through an opaque %v key does not verify as a signature of m (%v)", k.alg, err), map[string]any{"alg": k.alg.String(), "key": k.name})
		}
	}
	// --- digest equivalence ---
	n := 6
	if thorough {
		n = 400
	}
	for _, k := range realKeySet(r) {
		if k.alg == cose.AlgorithmEdDSA {
			continue
		}
		sg, vf := k.signer(), k.verifier()
		ds, ok1 := sg.(cose.DigestSigner)
		dv, ok2 := vf.(cose.DigestVerifier)
		if !ok1 || !ok2 {
			c.Fail("C17/no-digest-interface", "built-in RSA/ECDSA signer or verifier lacks the digest entry point", map[string]any{"alg": k.alg.String()})
			continue
		}
		var earlier []heldSig
		// content lengths around the block sizes of the hash functions and around the sizes at which an implementation
		// might start to read its input in pieces
		lengths := []int{0, 1, 55, 56, 63, 64, 65, 111, 112, 127, 128, 129, 4095, 4096, 4097, 32767, 32768, 32769, 65535, 65536, 65537, 131072, 1 << 20, 1<<20 + 1}
		for i := 0; i < n+len(lengths); i++ {
			msg := r.Bytes(r.Intn(200))
			if i >= n {
				msg = r.Bytes(lengths[i-n])
			}
			digest := digestOf(algHash(k.alg), msg)
			rep := map[string]any{"alg": k.alg.String(), "msg_len": len(msg), "msg": hx(trimTo(msg, 200))}
			// the last octet matters
			if len(msg) > 0 {
				if s0, e0 := sg.Sign(r, msg); e0 == nil {
					tampered := append([]byte{}, msg...)
					tampered[len(tampered)-1] ^= 1
					if vf.Verify(tampered, s0) == nil {
						c.Fail("C17/digest-equivalence", fmt.Sprintf("a signature over %d octets verifies for content whose last octet differs", len(msg)), rep)
					}
				}
			}
			s1, e1 := sg.Sign(r, msg)
			s1copy := append([]byte{}, s1...)
			s2, e2 := ds.SignDigest(r, digest)
			c.Eval("digest-equivalence/"+k.alg.String(), fmt.Sprint(len(msg))+hx(trimTo(msg, 100)), true)
			if e1 != nil || e2 != nil {
				c.Fail("C17/digest-sign-failed", fmt.Sprintf("%v / %v", e1, e2), rep)
				continue
			}
			// a signature a caller holds is its own: the signer's later work does not rewrite it
			earlier = append(earlier, heldSig{s1, s1copy, msg}, heldSig{s2, append([]byte{}, s2...), msg})
			for _, h := range earlier {
				if !bytes.Equal(h.sig, h.copy) {
					c.Fail("C17/earlier-signature-changed", fmt.Sprintf("a signature returned earlier by this signer changed when it signed again: was %x, now %x", trimTo(h.copy, 24), trimTo(h.sig, 24)), rep)
					earlier = nil
					break
				} else if vf.Verify(h.msg, h.sig) != nil {
					c.Fail("C17/digest-equivalence", "a signature returned earlier no longer verifies for its message", rep)
					earlier = nil
					break
				}
			}
			for name, s := range map[string][]byte{"Sign": s1, "SignDigest": s2} {
				if vf.Verify(msg, s) != nil || dv.VerifyDigest(digest, s) != nil {
					c.Fail("C17/digest-equivalence", name+" output does not verify through both Verify and VerifyDigest", rep)
				}
				// no other hash
				for _, h := range []crypto.Hash{crypto.SHA256, crypto.SHA384, crypto.SHA512} {
					if h == algHash(k.alg) {
						continue
					}
					if dv.VerifyDigest(digestOf(h, msg), s) == nil {
						c.Fail("C17/other-hash-accepted", fmt.Sprintf("signature verifies over the %v digest although the algorithm uses %v", h, algHash(k.alg)), rep)
					}
				}
			}
		}
	}
}

type heldSig struct{ sig, copy, msg []byte }

// recordingSigner: a crypto.Signer wrapping an ECDSA key (so that it is not *ecdsa.PrivateKey) that records what it is asked to sign
type recordingSigner struct {
	key     *ecdsa.PrivateKey
	digests [][]byte
	hashes  []crypto.Hash
}

func (s *recordingSigner) Public() crypto.PublicKey { return &s.key.PublicKey }
func (s *recordingSigner) Sign(rand io.Reader, digest []byte, opts crypto.SignerOpts) ([]byte, error) {
	s.digests = append(s.digests, append([]byte{}, digest...))
	h := crypto.Hash(0)
	if opts != nil {
		h = opts.HashFunc()
	}
	s.hashes = append(s.hashes, h)
	return s.key.Sign(rand, digest, opts)
}

// c14KeySets: a key set as applications hold it - several keys under ONE key identifier (rotation keeps the kid), keys
// with dozens of additional parameters (a key server's metadata): every key round-trips to an equal key, and the
// signer built from each private COSE_Key is accepted by the verifier built from its own public counterpart and by
// none of the others, in whatever order the verifiers were asked for.
func c14KeySets(c *Collector, r *Rng) {
	type member struct {
		name     string
		priv     crypto.Signer
		pubBytes []byte
		prvBytes []byte
	}
	for _, extra := range []int{0, 12, 17, 40} {
		var set []member
		kid := []byte("current")
		mk := func(name string, priv crypto.Signer) {
			pk, e1 := cose.NewKeyFromPublic(priv.Public())
			sk, e2 := cose.NewKeyFromPrivate(priv)
			if e1 != nil || e2 != nil {
				return
			}
			for _, k := range []*cose.Key{pk, sk} {
				k.ID = kid
				for j := 0; j < extra; j++ {
					k.Params[int64(-70100-j)] = fmt.Sprintf("metadata-%d", j)
				}
			}
			pb, e1 := pk.MarshalCBOR()
			sb, e2 := sk.MarshalCBOR()
			if e1 != nil || e2 != nil {
				c.Fail("C14/marshal", fmt.Sprintf("a key with %d additional parameters cannot be serialised: %v / %v", extra, e1, e2), map[string]any{"key": name})
				return
			}
			set = append(set, member{name, priv, pb, sb})
		}
		for _, ci := range curves {
			for j := 0; j < 2; j++ {
				if k, err := ecdsa.GenerateKey(ci.curve, r); err == nil {
					mk(fmt.Sprintf("%s-%d", ci.name, j), k)
				}
			}
		}
		for j := 0; j < 2; j++ {
			if _, priv, err := ed25519.GenerateKey(r); err == nil {
				mk(fmt.Sprintf("Ed25519-%d", j), priv)
			}
		}
		var verifiers []cose.Verifier
		var signers []cose.Signer
		ok := true
		for _, m := range set {
			rep := map[string]any{"key": m.name, "additional_parameters": extra, "public": hx(trimTo(m.pubBytes, 200))}
			var pk, sk cose.Key
			c.Eval("key-set/round-trip", fmt.Sprint(m.name, extra), true)
			if err := pk.UnmarshalCBOR(m.pubBytes); err != nil {
				c.Fail("C14/own-output-refused", fmt.Sprintf("a serialised public key with %d additional parameters cannot be parsed back: %v", extra, err), rep)
				ok = false
				break
			}
			if err := sk.UnmarshalCBOR(m.prvBytes); err != nil {
				c.Fail("C14/own-output-refused", fmt.Sprintf("a serialised private key with %d additional parameters cannot be parsed back: %v", extra, err), rep)
				ok = false
				break
			}
			if back, err := pk.PublicKey(); err != nil || !pubEqual(back, m.priv.Public()) {
				c.Fail("C14/public-differs", "public key differs after the round trip", rep)
			}
			if back, err := sk.PrivateKey(); err != nil || !privEqual(back, m.priv) {
				c.Fail("C14/private-differs", "private key differs after the round trip", rep)
			}
			vf, e1 := pk.Verifier()
			sg, e2 := sk.Signer()
			if e1 != nil || e2 != nil {
				c.Fail("C14/signer-verifier-refused", fmt.Sprintf("%v / %v", e1, e2), rep)
				ok = false
				break
			}
			verifiers, signers = append(verifiers, vf), append(signers, sg)
		}
		if !ok {
			continue
		}
		for i, sg := range signers {
			sig, err := sg.Sign(r, []byte("message"))
			if err != nil {
				continue
			}
			for j, vf := range verifiers {
				if vf.Algorithm() != sg.Algorithm() {
					continue
				}
				verr := vf.Verify([]byte("message"), sig)
				c.Eval("key-set/cross", fmt.Sprint(set[i].name, set[j].name, extra), true)
				if i == j && verr != nil {
					c.Fail("C14/signature-rejected", fmt.Sprintf("the verifier built from the public COSE_Key of %s refuses the signature of the signer built from its private COSE_Key (the set holds other keys under the same kid)", set[i].name), map[string]any{"key": set[i].name, "additional_parameters": extra})
				}
				if i != j && verr == nil {
					c.Fail("C14/signature-rejected", fmt.Sprintf("the verifier built from the public COSE_Key of %s accepts a signature made with the private COSE_Key of %s (same kid, different keys)", set[j].name, set[i].name), map[string]any{"signer": set[i].name, "verifier": set[j].name})
				}
			}
		}
	}
}

func pubEqual(a, b crypto.PublicKey) bool {
	type eq interface{ Equal(crypto.PublicKey) bool }
	e, ok := a.(eq)
	return ok && e.Equal(b)
}
func privEqual(a crypto.PrivateKey, b crypto.Signer) bool {
	type eq interface{ Equal(crypto.PrivateKey) bool }
	e, ok := a.(eq)
	return ok && e.Equal(b)
}

func c15AlgShapes() []*W {
	return []*W{wTstr("ES256", -1), wTstr("ES384", -1), wTstr("ES512", -1), wTstr("EdDSA", -1), wTstr("", -1), wTstr("none", -1),
		wBstr([]byte{0x26}, -1), wBstr(nil, -1), wNull(), wUndef(), wBool(true), wBool(false), wFloat64(-7), wFloat16bits(0xc700), wArr(-1), wArr(-1, wInt(-7, -1)), wMap(-1),
		wTag(3, -1, wBstr([]byte{6}, -1)), wTag(2, -1, wBstr([]byte{1, 0, 0, 0, 0, 0, 0, 0, 0}, -1)), wInt(-7, -1), wInt(-35, -1), wInt(-36, -1), wInt(-8, -1), wInt(-37, -1), wInt(0, -1), wInt(5, -1), wInt(-65537, -1),
		&W{Maj: 0, Width: 8, Val: 1 << 63}, &W{Maj: 1, Width: 8, Val: 1 << 63}, wInt(-7, 1), wInt(-7, 8)}
}

// meetingPoint lets goroutines wait until all of them have arrived (or two seconds have passed)
type meetingPoint struct {
	mu      sync.Mutex
	need    int
	arrived int
}

func (m *meetingPoint) arrive() {
	m.mu.Lock()
	m.arrived++
	m.mu.Unlock()
	for i := 0; i < 2000; i++ {
		m.mu.Lock()
		ok := m.arrived >= m.need
		m.mu.Unlock()
		if ok {
			return
		}
		time.Sleep(time.Millisecond)
	}
}

// meetingSigner: an opaque RSA key that waits, once inside Sign, until the other signer's key is inside Sign too, then
// looks at the options it was handed and signs with them
type meetingSigner struct {
	real *rsa.PrivateKey
	meet *meetingPoint
	seen string
}

func (m *meetingSigner) Public() crypto.PublicKey { return &m.real.PublicKey }
func (m *meetingSigner) Sign(rnd io.Reader, digest []byte, opts crypto.SignerOpts) ([]byte, error) {
	m.meet.arrive()
	time.Sleep(2 * time.Millisecond)
	if opts.HashFunc().Size() != len(digest) {
		m.seen = fmt.Sprintf("the key was handed a digest of %d octets together with options naming %v", len(digest), opts.HashFunc())
	}
	return m.real.Sign(rnd, digest, opts)
}

// c14SharedBuffers: key material that lives in one contiguous buffer of the application (a key store read in one piece:
// seed after seed, coordinate after coordinate), each COSE_Key built over its own sub-slice with capacity to spare:
// converting any key back, building signers and verifiers, and serialising never writes outside (or inside) the
// key's own octets - the buffer is unchanged and every key still converts to the key it was.
func c14SharedBuffers(c *Collector, r *Rng) {
	const n = 4
	// Ed25519: seeds back to back, public keys back to back
	{
		seeds := make([]byte, 0, 32*n)
		pubs := make([]byte, 0, 32*n)
		var privs []ed25519.PrivateKey
		for i := 0; i < n; i++ {
			pub, priv, _ := ed25519.GenerateKey(r)
			privs = append(privs, priv)
			seeds = append(seeds, priv.Seed()...)
			pubs = append(pubs, pub...)
		}
		keep := append([]byte{}, seeds...)
		keepPubs := append([]byte{}, pubs...)
		var keys []*cose.Key
		for i := 0; i < n; i++ {
			k, err := cose.NewKeyOKP(cose.AlgorithmEdDSA, pubs[32*i:32*i+32], seeds[32*i:32*i+32])
			if err != nil {
				return
			}
			keys = append(keys, k)
		}
		for i, k := range keys {
			k.PrivateKey()
			k.Signer()
			k.PublicKey()
			k.Verifier()
			k.MarshalCBOR()
			c.Eval("shared-buffer/ed25519", fmt.Sprint(i), true)
		}
		if !bytes.Equal(seeds, keep) || !bytes.Equal(pubs, keepPubs) {
			c.Fail("C14/caller-bytes-changed", "converting COSE_Keys built over sub-slices of one buffer wrote into that buffer (Ed25519 seeds / public keys)", map[string]any{"before": hx(keep), "after": hx(seeds)})
		}
		for i, k := range keys {
			pv, err := k.PrivateKey()
			if e, ok := pv.(ed25519.PrivateKey); err != nil || !ok || !e.Equal(privs[i]) {
				c.Fail("C14/private-differs", fmt.Sprintf("Ed25519 key %d of %d built over one buffer converts back to another private key after its neighbours were converted (%v)", i, n, err), map[string]any{"key": i})
				continue
			}
			b, err := k.MarshalCBOR()
			if err != nil {
				continue
			}
			var back cose.Key
			if back.UnmarshalCBOR(b) == nil {
				if sg, err := back.Signer(); err == nil {
					sig, _ := sg.Sign(r, []byte("m"))
					if !ed25519.Verify(privs[i].Public().(ed25519.PublicKey), []byte("m"), sig) {
						c.Fail("C14/signature-rejected", fmt.Sprintf("the signer built from serialised Ed25519 key %d of %d (one buffer) does not sign for that key", i, n), map[string]any{"key": i})
					}
				}
			}
		}
	}
	// EC2: x | y | d of each key back to back in one buffer
	for _, ci := range curves {
		buf := make([]byte, 0, 3*ci.n*n)
		var privs []*ecdsa.PrivateKey
		for i := 0; i < n; i++ {
			k, err := ecdsa.GenerateKey(ci.curve, r)
			if err != nil {
				return
			}
			privs = append(privs, k)
			buf = append(buf, k.X.FillBytes(make([]byte, ci.n))...)
			buf = append(buf, k.Y.FillBytes(make([]byte, ci.n))...)
			buf = append(buf, k.D.FillBytes(make([]byte, ci.n))...)
		}
		keep := append([]byte{}, buf...)
		var keys []*cose.Key
		for i := 0; i < n; i++ {
			o := 3 * ci.n * i
			k, err := cose.NewKeyEC2(ci.alg, buf[o:o+ci.n], buf[o+ci.n:o+2*ci.n], buf[o+2*ci.n:o+3*ci.n])
			if err != nil {
				break
			}
			keys = append(keys, k)
		}
		for i, k := range keys {
			k.PrivateKey()
			k.Signer()
			k.PublicKey()
			k.Verifier()
			k.MarshalCBOR()
			c.Eval("shared-buffer/"+ci.name, fmt.Sprint(i), true)
		}
		if !bytes.Equal(buf, keep) {
			c.Fail("C14/caller-bytes-changed", "converting COSE_Keys built over sub-slices of one buffer wrote into that buffer ("+ci.name+" coordinates)", map[string]any{"curve": ci.name})
		}
		for i, k := range keys {
			pv, err := k.PrivateKey()
			if e, ok := pv.(*ecdsa.PrivateKey); err != nil || !ok || !e.Equal(privs[i]) {
				c.Fail("C14/private-differs", fmt.Sprintf("%s key %d of %d built over one buffer converts back to another private key (%v)", ci.name, i, n, err), map[string]any{"key": i, "curve": ci.name})
			}
		}
	}
}
