package main

import (
	"fmt"
	"math"
	"math/big"
	"reflect"
	"sort"
	"strings"
	"time"

	"github.com/fxamacker/cbor/v2"
	cose "github.com/veraison/go-cose"
)

// ---- Coq term printers ----

func cZ(n int64) string {
	if n < 0 {
		return fmt.Sprintf("(%d)", n)
	}
	return fmt.Sprintf("%d", n)
}

func cU(n uint64) string { return fmt.Sprintf("%d", n) }

func cBig(n *big.Int) string {
	if n.Sign() < 0 {
		return "(" + n.String() + ")"
	}
	return n.String()
}

func cBool(b bool) string {
	if b {
		return "true"
	}
	return "false"
}

// cBytes prints a byte string as a Coq term of type bytes. Long runs of one
// byte are written with rep so that boundary-length payloads stay small.
func cBytes(b []byte) string {
	if len(b) <= 512 {
		return `(x "` + hx(b) + `")`
	}
	var parts []string
	i := 0
	lit := 0 // start of pending literal
	flush := func(end int) {
		for lit < end {
			e := lit + 4096
			if e > end {
				e = end
			}
			parts = append(parts, `x "`+hx(b[lit:e])+`"`)
			lit = e
		}
	}
	for i < len(b) {
		j := i
		for j < len(b) && b[j] == b[i] {
			j++
		}
		if j-i >= 128 {
			flush(i)
			parts = append(parts, fmt.Sprintf("rep %d %d", j-i, b[i]))
			lit = j
		}
		i = j
	}
	flush(len(b))
	if len(parts) == 1 {
		return "(" + parts[0] + ")"
	}
	return "(" + strings.Join(parts, " ++ ") + ")%list"
}

// cGoBytes prints a Go []byte (nil-aware) as a term of type gobytes.
func cGoBytes(b []byte) string {
	if b == nil {
		return "None"
	}
	return "(Some " + cBytes(b) + ")"
}

func cList(items []string) string { return "[" + strings.Join(items, "; ") + "]" }

func cOptPairZ(r, s *big.Int, ok bool) string {
	if !ok {
		return "None"
	}
	return "(Some (" + cBig(r) + ", " + cBig(s) + "))"
}

// ---- observation trees ----

func oT(name string, kids ...string) string { return `OT "` + name + `" ` + cList(kids) }
func oB(b []byte) string                    { return "OB " + cBytes(b) }
func oZ(n int64) string                     { return "OZ " + cZ(n) }
func oG(v any) string                       { return "OG " + cGv(v) }
func oOk(kids ...string) string             { return oT("ok", kids...) }
func oErrCls(cls string) string             { return oT("err", oT(cls)) }
func oPanic() string                        { return oT("panic") }
func oGoBytes(b []byte) string {
	if b == nil {
		return oT("nil")
	}
	return oB(b)
}
func oBool(b bool) string {
	if b {
		return oT("true")
	}
	return oT("false")
}

// ---- Go values as gv terms ----

func cHeaders(h *cose.Headers) (rawP, p, rawU, u string) {
	rawP = cGoBytes(h.RawProtected)
	rawU = cGoBytes(h.RawUnprotected)
	p = cOptMap(map[any]any(h.Protected), h.Protected == nil)
	u = cOptMap(map[any]any(h.Unprotected), h.Unprotected == nil)
	return
}

func cOptMap(m map[any]any, isNil bool) string {
	if isNil {
		return "None"
	}
	return "(Some " + cFlatMap(m) + ")"
}

// cFlatMap renders a Go map as flat pairs, sorted by the rendered key so that
// the rendering of a value is deterministic (snapshots are compared as strings).
func cFlatMap(m map[any]any) string {
	type kv struct{ k, v string }
	pairs := make([]kv, 0, len(m))
	for k, v := range m {
		pairs = append(pairs, kv{cGv(k), cGv(v)})
	}
	sort.Slice(pairs, func(i, j int) bool { return pairs[i].k < pairs[j].k })
	items := make([]string, 0, 2*len(m))
	for _, p := range pairs {
		items = append(items, p.k, p.v)
	}
	return cList(items)
}

func cCsig(c *cose.Countersignature) string {
	if c == nil {
		return "GNil"
	}
	rp, p, ru, u := cHeaders(&c.Headers)
	return "(GCsig " + rp + " " + p + " " + ru + " " + u + " " + cGoBytes(c.Signature) + ")"
}

// cGvRawNaN: render a NaN with the bits it has (inputs of the float leg of C08: the model's own NaN test then
// decides); everywhere else a NaN is rendered as the one quiet NaN both sides observe.
var cGvRawNaN bool

func cGv(v any) string {
	switch t := v.(type) {
	case nil:
		return "GNil"
	case int:
		return "(GInt KInt " + cZ(int64(t)) + ")"
	case int8:
		return "(GInt KInt8 " + cZ(int64(t)) + ")"
	case int16:
		return "(GInt KInt16 " + cZ(int64(t)) + ")"
	case int32:
		return "(GInt KInt32 " + cZ(int64(t)) + ")"
	case int64:
		return "(GInt KInt64 " + cZ(t) + ")"
	case uint:
		return "(GInt KUint " + cU(uint64(t)) + ")"
	case uint8:
		return "(GInt KUint8 " + cU(uint64(t)) + ")"
	case uint16:
		return "(GInt KUint16 " + cU(uint64(t)) + ")"
	case uint32:
		return "(GInt KUint32 " + cU(uint64(t)) + ")"
	case uint64:
		return "(GInt KUint64 " + cU(t) + ")"
	case cose.Algorithm:
		return "(GInt KAlg " + cZ(int64(t)) + ")"
	case cose.Curve:
		return "(GInt KCurve " + cZ(int64(t)) + ")"
	case cose.KeyType:
		return "(GInt KKty " + cZ(int64(t)) + ")"
	case cose.KeyOp:
		return "(GInt KKeyOp " + cZ(int64(t)) + ")"
	case string:
		return "(GStr " + cBytes([]byte(t)) + ")"
	case []byte:
		if t == nil {
			return "GNilBytes"
		}
		return "(GBytes " + cBytes(t) + ")"
	case bool:
		return "(GBool " + cBool(t) + ")"
	case []any:
		items := make([]string, len(t))
		for i, e := range t {
			items[i] = cGv(e)
		}
		return "(GArr " + cList(items) + ")"
	case map[any]any:
		return "(GMap " + cFlatMap(t) + ")"
	case cose.CWTClaims:
		return "(GMap " + cFlatMap(map[any]any(t)) + ")"
	case big.Int:
		return "(GBig " + cBig(&t) + ")"
	case *big.Int:
		return "(GBig " + cBig(t) + ")"
	case cbor.Tag:
		return "(GTag " + cU(t.Number) + " " + cGv(t.Content) + ")"
	case cbor.ByteString:
		return "(GBStr " + cBytes([]byte(t)) + ")"
	case cbor.SimpleValue:
		return "(GSimple " + cU(uint64(t)) + ")"
	case float64:
		if math.IsNaN(t) && !cGvRawNaN {
			return "(GFloat 9221120237041090561)" // every NaN is observed as one canonical NaN
		}
		return "(GFloat " + cU(math.Float64bits(t)) + ")"
	case float32:
		return "GOther"
	case time.Time:
		return "GOther"
	case []cose.KeyOp:
		items := make([]string, len(t))
		for i, e := range t {
			items[i] = cZ(int64(e))
		}
		return "(GOps " + cList(items) + ")"
	case *cose.Countersignature:
		return cCsig(t)
	case []*cose.Countersignature:
		items := make([]string, len(t))
		for i, e := range t {
			items[i] = cCsig(e)
		}
		return "(GCsigs " + cList(items) + ")"
	}
	_ = reflect.TypeOf(v)
	return "GOther"
}
