package main

import (
	"crypto"
	"crypto/ecdsa"
	"crypto/ed25519"
	"crypto/elliptic"
	"crypto/rsa"
	"fmt"
	"math/big"
	"sync"

	cose "github.com/veraison/go-cose"
)

// ---------- in-memory (Go value) generators ----------

// spellInt returns n as a Go integer of a random kind that can hold it.
func spellInt(r *Rng, n int64, allKinds bool) any {
	if !allKinds {
		return n
	}
	var opts []any
	opts = append(opts, n, int(n))
	if n >= -128 && n <= 127 {
		opts = append(opts, int8(n))
	}
	if n >= -32768 && n <= 32767 {
		opts = append(opts, int16(n))
	}
	if n >= -(1<<31) && n < 1<<31 {
		opts = append(opts, int32(n))
	}
	if n >= 0 {
		opts = append(opts, uint(n), uint64(n))
		if n <= 255 {
			opts = append(opts, uint8(n))
		}
		if n <= 65535 {
			opts = append(opts, uint16(n))
		}
		if n < 1<<32 {
			opts = append(opts, uint32(n))
		}
	}
	return pick(r, opts)
}

// genBigInts: let genGoValue produce big.Int values (outside the data model of the closure properties: only the
// encoders' determinism and the model's bytes are checked on them)
var genBigInts bool

func genGoValue(r *Rng, depth int) any {
	n := 8
	if depth <= 0 {
		n = 6
	}
	switch r.Intn(n) {
	case 0:
		return pick(r, boundaryInts)
	case 1:
		return spellInt(r, int64(r.Intn(300))-100, true)
	case 2:
		return genBytes(r)
	case 3:
		return genText(r)
	case 4:
		return pick(r, []any{true, false, nil})
	case 5:
		if genBigInts && r.Chance(1, 3) { // big integers: how they are written depends on the encoder mode of the bucket
			b := new(big.Int)
			b.SetString(pick(r, []string{"0", "5", "-6", "9223372036854775807", "9223372036854775808", "18446744073709551615", "18446744073709551616",
				"-9223372036854775808", "-9223372036854775809", "-18446744073709551616", "-18446744073709551617", "1180591620717411303424"}), 10)
			if r.Bool() {
				return *b
			}
			return b
		}
		return uint64(r.Intn(100000))
	case 6:
		k := r.Intn(4)
		out := make([]any, k)
		for i := range out {
			out[i] = genGoValue(r, depth-1)
		}
		return out
	default:
		k := r.Intn(4)
		m := map[any]any{}
		for i := 0; i < k; i++ {
			if r.Bool() {
				m[int64(r.Intn(50)-25)] = genGoValue(r, depth-1)
			} else {
				m[pick(r, textLabels)] = genGoValue(r, depth-1)
			}
		}
		return m
	}
}

func mediaOrUintGo(r *Rng) any {
	if r.Bool() {
		return spellInt(r, int64(pick(r, []int{0, 1, 23, 24, 50, 65535})), true)
	}
	return pick(r, []string{"text/plain", "application/cbor", "a/b"})
}

type BucketCfg struct {
	Spell   bool // spell int labels with random Go integer kinds
	Max     int
	Csig    int
	Invalid bool // occasionally plant rule violations
}

// genGoBucket builds a (mostly conforming) header bucket of Go values.
func genGoBucket(r *Rng, cfg BucketCfg, protected bool, alg cose.Algorithm, haveAlg bool, ivMode int) map[any]any {
	m := map[any]any{}
	used := map[int64]bool{}
	add := func(l int64, v any) {
		if used[l] {
			return
		}
		used[l] = true
		m[spellInt(r, l, cfg.Spell)] = v
	}
	if haveAlg && protected {
		switch r.Intn(4) {
		case 0:
			add(1, int64(alg))
		case 1:
			add(1, spellInt(r, int64(alg), true))
		default:
			add(1, alg)
		}
	}
	n := r.Intn(cfg.Max + 1)
	for i := 0; i < n; i++ {
		switch r.Intn(12) {
		case 0:
			add(3, mediaOrUintGo(r))
		case 1:
			add(4, genBytes(r))
		case 2:
			if ivMode == 1 {
				add(5, r.Bytes(8))
			} else if ivMode == 2 {
				add(6, r.Bytes(3))
			}
		case 3:
			add(16, mediaOrUintGo(r))
		case 4:
			if !protected {
				add(pick(r, []int64{9, 12}), r.Bytes(1+r.Intn(40)))
			}
		case 5:
			if !protected && cfg.Csig > 0 {
				sub := cfg
				sub.Csig--
				sub.Max = 2
				if r.Chance(2, 3) {
					add(pick(r, []int64{7, 11}), genGoCountersig(r, sub))
				} else {
					k := 1 + r.Intn(5)
					l := make([]*cose.Countersignature, k)
					for j := range l {
						l[j] = genGoCountersig(r, sub)
					}
					add(pick(r, []int64{7, 11}), l)
				}
			}
		case 6:
			add(15, cose.CWTClaims{int64(1): "iss", int64(2): "sub"})
		case 7:
			add(pick(r, []int64{32, 33, 34, 35, 258, 259, 260}), genGoValue(r, 1))
		case 8:
			l := pick(r, boundaryInts)
			if (l >= 0 && l <= 16) || (l >= 32 && l <= 35) {
				l += 1000
			}
			add(l, genGoValue(r, 2))
		case 9:
			m[pick(r, textLabels)] = genGoValue(r, 2)
		default:
			add(int64(r.Intn(400))+40, genGoValue(r, 1))
		}
	}
	if protected && len(m) > 0 && r.Chance(1, 5) && !used[2] {
		var labels []any
		for k := range m {
			labels = append(labels, k)
			if r.Bool() {
				break
			}
		}
		add(2, labels)
	}
	if cfg.Invalid && r.Chance(1, 3) {
		// plant a rule violation under label l, replacing whatever spelling of l is present: two spellings of one
		// label with different values would make the reported error depend on Go's map iteration order
		set := func(l int64, v any) {
			for k := range m {
				if n, ok := toI64(k); ok && n == l {
					delete(m, k)
				}
			}
			m[spellInt(r, l, cfg.Spell)] = v
		}
		switch r.Intn(8) {
		case 0:
			set(4, "kid-as-text")
		case 1:
			set(5, r.Bytes(4))
			set(6, r.Bytes(4))
		case 2:
			set(2, []any{int64(77)})
		case 3:
			set(3, " text/plain")
		case 4:
			set(1, true)
		case 5:
			m[1.5] = int64(1)
		case 6:
			set(7, []byte{1})
		case 7:
			set(9, int64(3))
		}
	}
	return m
}

func genGoCountersig(r *Rng, cfg BucketCfg) *cose.Countersignature {
	cs := cose.NewCountersignature()
	alg := pick(r, []cose.Algorithm{-7, -35, -8, -37})
	cs.Headers.Protected = cose.ProtectedHeader(genGoBucket(r, cfg, true, alg, r.Chance(3, 4), 0))
	cs.Headers.Unprotected = cose.UnprotectedHeader(genGoBucket(r, cfg, false, 0, false, 0))
	cs.Signature = genSigBytes(r)
	return cs
}

var goAlgs = []cose.Algorithm{cose.AlgorithmES256, cose.AlgorithmES384, cose.AlgorithmES512, cose.AlgorithmEdDSA, cose.AlgorithmPS256, cose.AlgorithmPS384, cose.AlgorithmPS512}

// genGoHeaders: typed buckets, sometimes with caller-supplied raw buckets.
func genGoHeaders(r *Rng, cfg BucketCfg, alg cose.Algorithm, haveAlg bool, raws bool) cose.Headers {
	ivP, ivU := 0, 0
	switch r.Intn(6) {
	case 0:
		ivP = 1
	case 1:
		ivP = 2
	case 2:
		ivU = 1
	case 3:
		ivU = 2
	}
	var h cose.Headers
	switch r.Intn(8) {
	case 0:
		// nil protected map
	default:
		h.Protected = cose.ProtectedHeader(genGoBucket(r, cfg, true, alg, haveAlg, ivP))
	}
	switch r.Intn(8) {
	case 0:
	default:
		h.Unprotected = cose.UnprotectedHeader(genGoBucket(r, cfg, false, 0, false, ivU))
	}
	if raws {
		switch r.Intn(4) {
		case 0, 3:
			// raw protected consistent with a (possibly different) typed map
			p, _ := genHeadersTree(r, GenCfg{MaxEntries: 3, ValDepth: 1}, int64(alg), haveAlg)
			if pm, err := refParseFull(p.Str); err == nil && r.Bool() {
				pm.RandWidths(r, 1, 2, nil) // another encoder's spelling of the map inside
				pm.ShuffleMaps(r)
				p.Str = pm.Ser()
			}
			if ws := widthsFor(uint64(len(p.Str))); r.Chance(2, 3) {
				p.Width = ws[r.Intn(len(ws))] // ... and of the length prefix around it
			}
			h.RawProtected = p.Ser()
		case 1:
			h.RawProtected = []byte{}
		case 2:
			h.RawProtected = []byte{0x40}
		}
		switch r.Intn(6) {
		case 0:
			_, u := genHeadersTree(r, GenCfg{MaxEntries: 3, ValDepth: 1}, 0, false)
			h.RawUnprotected = u.Ser()
		case 1:
			h.RawUnprotected = []byte{}
		}
	}
	return h
}

func genGoPayload(r *Rng) []byte {
	switch r.Intn(10) {
	case 0:
		return nil
	case 1:
		return []byte{}
	case 2:
		return r.Bytes(pick(r, []int{23, 24, 255, 256}))
	}
	return r.Bytes(1 + r.Intn(40))
}

func genGoExternal(r *Rng) []byte {
	switch r.Intn(4) {
	case 0:
		return nil
	case 1:
		return []byte{}
	case 2:
		return r.Bytes(pick(r, []int{1, 23, 24, 255, 256}))
	}
	return []byte("external aad")
}

// ---------- real keys ----------

type realKey struct {
	alg  cose.Algorithm
	name string
	priv crypto.Signer
	pub  crypto.PublicKey
}

var (
	keyOnce  sync.Once
	realKeys []realKey
)

// realKeySet generates one key per built-in algorithm (RSA keys are slow: once per run).
func realKeySet(r *Rng) []realKey {
	keyOnce.Do(func() {
		kr := NewRng(424242)
		for _, ci := range curves {
			k, err := ecdsa.GenerateKey(ci.curve, kr)
			if err != nil {
				panic(err)
			}
			realKeys = append(realKeys, realKey{ci.alg, ci.name, k, &k.PublicKey})
		}
		pub, priv, _ := ed25519.GenerateKey(kr)
		realKeys = append(realKeys, realKey{cose.AlgorithmEdDSA, "Ed25519", priv, pub})
		rk, err := rsa.GenerateKey(kr, 2048)
		if err != nil {
			panic(err)
		}
		for _, a := range []cose.Algorithm{cose.AlgorithmPS256, cose.AlgorithmPS384, cose.AlgorithmPS512} {
			realKeys = append(realKeys, realKey{a, "RSA-2048", rk, &rk.PublicKey})
		}
		// key sizes other than the minimum: a modulus that is not a whole number of bytes, and a larger one
		for _, sz := range []struct {
			bits int
			alg  cose.Algorithm
		}{{2051, cose.AlgorithmPS256}, {3072, cose.AlgorithmPS384}} {
			k2, err := rsa.GenerateKey(kr, sz.bits)
			if err != nil {
				panic(err)
			}
			realKeys = append(realKeys, realKey{sz.alg, fmt.Sprintf("RSA-%d", sz.bits), k2, &k2.PublicKey})
		}
	})
	return realKeys
}

// opaqueSigner hides the concrete key type behind the crypto.Signer interface, as an HSM / KMS adapter does
type opaqueSigner struct{ crypto.Signer }

var (
	opaqueOnce sync.Once
	opaqueKeys []realKey
)

// opaqueKeySet: the keys of realKeySet offered as opaque crypto.Signers, ECDSA keys under every algorithm the
// library lets them sign with (also ES384 / ES512 with a P-256 key and so on), RSA keys under the three PSS algorithms
func opaqueKeySet(r *Rng) []realKey {
	opaqueOnce.Do(func() {
		for _, k := range realKeySet(r) {
			switch k.priv.(type) {
			case *ecdsa.PrivateKey:
				for _, a := range []cose.Algorithm{cose.AlgorithmES256, cose.AlgorithmES384, cose.AlgorithmES512} {
					ok := realKey{a, "opaque-" + k.name + "-under-" + a.String(), opaqueSigner{k.priv}, k.pub}
					if _, err := cose.NewSigner(a, ok.priv); err != nil {
						continue
					}
					if _, err := cose.NewVerifier(a, ok.pub); err != nil {
						continue
					}
					opaqueKeys = append(opaqueKeys, ok)
				}
			case *rsa.PrivateKey:
				if k.name == "RSA-2048" {
					opaqueKeys = append(opaqueKeys, realKey{k.alg, "opaque-" + k.name, opaqueSigner{k.priv}, k.pub})
				}
			}
		}
	})
	return opaqueKeys
}

func (k realKey) signer() cose.Signer {
	s, err := cose.NewSigner(k.alg, k.priv)
	if err != nil {
		panic(err)
	}
	return s
}
func (k realKey) verifier() cose.Verifier {
	v, err := cose.NewVerifier(k.alg, k.pub)
	if err != nil {
		panic(err)
	}
	return v
}

var _ = elliptic.P256
