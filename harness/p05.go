package main

import "fmt"

func init() {
	runners["C05"] = runC05
}

// decodeCase runs one decoder on data, records the correspondence case.
func decodeCase(c *Collector, class, kind string, data []byte) decoded {
	d := decodeKind(kind, data)
	obs := d.obs()
	if hasOther(obs) {
		c.Dist["skipped-unrenderable"]++
		return d
	}
	c.Add(class, opDec(kind, data), obs, d.err == nil && !d.paniced)
	if d.paniced {
		c.Fail("C06/panic/"+kind, "decoder panicked: "+fmtPanic(d.panicv), map[string]any{"kind": kind, "data": hx(data)})
	}
	return d
}

func runC05(c *Collector, r *Rng, thorough bool) {
	c.Rule = "wire-tree generator of conforming messages/signatures/buckets (random head widths, map orders, nested countersignatures), single and double structural faults at random tree nodes, byte-level faults, random bytes; non-trivial = accepted by the decoder, or a mutant of a conforming message; distinct by input bytes"
	n := 120
	if thorough {
		n = 4000
	}
	kinds := []string{"DSign1", "DSign1U", "DSignature", "DSignMsg", "DProt", "DUnprot"}
	for _, kind := range kinds {
		for i := 0; i < n; i++ {
			cfg := defaultCfg
			t := genTreeOfKind(r, kind, cfg)
			if r.Bool() {
				t.RandWidths(r, 1, 3, isEnvelopeHead(kind, t))
				t.ShuffleMaps(r)
			}
			base := t.Ser()
			d := decodeCase(c, "valid/"+kind, kind, base)
			if d.err != nil && !d.paniced {
				c.Dist["valid-rejected/"+kind]++
			}
			// cross-kind: no decoder accepts another kind's encoding
			other := pick(r, kinds[:4])
			if other != kind && kind != "DProt" && kind != "DUnprot" {
				od := decodeCase(c, "cross-kind/"+kind+"->"+other, other, base)
				if od.err == nil && !od.paniced && !(kind == "DSignature" && other == "DSignature") {
					c.Fail("C05/cross-kind", fmt.Sprintf("%s decoder accepted a %s encoding", other, kind), map[string]any{"data": hx(base), "kind": other})
				}
			}
			// structural faults
			for j := 0; j < 3; j++ {
				m := t.Clone()
				desc := mutateTree(r, &m)
				if j == 2 {
					desc += "+" + mutateTree(r, &m)
				}
				decodeCase(c, "tree-fault/"+desc, kind, m.Ser())
			}
			// byte faults
			b, desc := mutateBytes(r, base)
			decodeCase(c, "byte-fault/"+desc, kind, b)
		}
		for i := 0; i < n/4; i++ {
			decodeCase(c, "random-bytes", kind, r.Bytes(r.Intn(24)))
		}
	}
}
