package main

import (
	"bytes"
	"fmt"
)

func init() {
	runners["C05"] = runC05
}

// decodeCase runs one decoder on data, records the correspondence case.
func decodeCase(c *Collector, class, kind string, data []byte) decoded {
	d := decodeKind(kind, data)
	obs := d.obs()
	if hasOther(obs) {
		c.Dist["skipped-unrenderable"]++
		return d
	}
	c.Add(class, opDec(kind, data), obs, d.err == nil && !d.paniced)
	if d.paniced {
		c.Fail("C06/panic/"+kind, "decoder panicked: "+fmtPanic(d.panicv), map[string]any{"kind": kind, "data": hx(data)})
	}
	return d
}

func runC05(c *Collector, r *Rng, thorough bool) {
	c.Rule = "wire-tree generator of conforming messages/signatures/buckets (random head widths, map orders, nested countersignatures), single and double structural faults at random tree nodes, byte-level faults, random bytes; non-trivial = accepted by the decoder, or a mutant of a conforming message; distinct by input bytes"
	n := 120
	if thorough {
		n = 4000
	}
	kinds := []string{"DSign1", "DSign1U", "DSignature", "DSignMsg", "DProt", "DUnprot"}
	// corpus: minimised inputs of earlier findings run first
	for _, cs := range []struct{ kind, hex string }{
		{"DProt", "46a1d9d9f70126"},                                           // label 55799(1)
		{"DSign1", "d28446a1d9d9f70126a0f64101"},                              // same inside a COSE_Sign1
		{"DUnprot", "a1d9d9f7044101"},                                         // standalone unprotected bucket
		{"DUnprot", "a104d9d9f74101"},                                         // 55799 before a governed value
		{"DUnprot", "a107f6"}, {"DUnprot", "a10780"}, {"DUnprot", "a10781f6"}, // fixed: null / empty / [null] countersignature
		{"DSign1", "d28440a107f6f64101"},
		// IV in one bucket, Partial IV in the other, in every structure and layer
		{"DSign1", "d28444a1054101a1064102f64100"}, {"DSign1", "d28444a1064101a1054102f64100"},
		{"DSign1U", "8444a1054101a1064102f64100"}, {"DSignature", "8344a1054101a10641024100"},
		{"DSignMsg", "d8628444a1054101a1064102f6818340a04100"}, {"DSignMsg", "d8628440a0f6818344a1064101a10541024100"},
		{"DSign1", "d28440a1078344a1054101a10641024100f64100"}, {"DSign1", "d28440a107818344a1054101a10641024100f64100"},
		// null / undefined where a COSE_Signature is expected
		{"DSignMsg", "d8628440a043666f6f81f6"}, {"DSignMsg", "d8628440a043666f6f828340a04101f7"}, {"DSignMsg", "d8628440a043666f6f82f68340a04101"},
		// fixed (F10): a tagged item is not a countersignature list
		{"DUnprot", "a107d862818340a04101"}, {"DUnprot", "a107c6818340a04101"}, {"DUnprot", "a10bd862818340a04101"},
		// a bignum (tag 2 / 3) is neither int nor uint: alg, content type, typ in any layer
		{"DProt", "45a101c34106"}, {"DProt", "45a103c2412a"}, {"DProt", "45a110c2412a"}, {"DSign1", "d28445a101c34106a0f64100"},
		{"DSign1U", "8445a103c2412aa0f64100"}, {"DSignature", "8345a101c34106a04100"}, {"DSignMsg", "d8628440a0f6818345a101c34106a04100"},
		{"DSign1", "d28440a1078345a101c34106a04101f64100"}, {"DSign1", "d28440a10b818345a110c2412aa04101f64100"},
		// content type / typ text rules
		{"DProt", "43a11060"}, {"DUnprot", "a11060"}, {"DProt", "43a10360"}, {"DSign1", "d28443a11060a0f64100"},
	} {
		b := unhex(cs.hex)
		d := decodeCase(c, "corpus/"+cs.kind, cs.kind, b)
		c05Oracle(c, cs.kind, b, &d)
	}
	c05GovernedGrid(c)
	c05IVPairs(c)
	c05BigIntNeighbours(c)
	c05TinyProtected(c)
	for _, kind := range kinds {
		for i := 0; i < n; i++ {
			cfg := defaultCfg
			t := genTreeOfKind(r, kind, cfg)
			if r.Bool() {
				t.RandWidths(r, 1, 3, isEnvelopeHead(kind, t))
				t.ShuffleMaps(r)
			}
			base := t.Ser()
			d := decodeCase(c, "valid/"+kind, kind, base)
			if d.err != nil && !d.paniced {
				c.Dist["valid-rejected/"+kind]++
			}
			c05Oracle(c, kind, base, &d)
			// the whole item wrapped in the self-described tag 55799, once or twice: not "exactly one item of that shape"
			if kind != "DProt" && kind != "DUnprot" && i%4 == 0 {
				for _, pre := range []string{"d9d9f7", "d9d9f7d9d9f7"} {
					wrapped := append(unhex(pre), base...)
					wd := decodeCase(c, "selfdescribed-prefix/"+kind, kind, wrapped)
					if wd.err == nil && !wd.paniced {
						c.Fail("C05/accepted-malformed", fmt.Sprintf("%s decoder accepted its structure wrapped in tag 55799 (%d times)", kind, len(pre)/6), map[string]any{"data": hx(wrapped), "kind": kind})
					}
				}
			}
			// cross-kind: no decoder accepts another kind's encoding
			other := pick(r, kinds[:4])
			if other != kind && kind != "DProt" && kind != "DUnprot" {
				od := decodeCase(c, "cross-kind/"+kind+"->"+other, other, base)
				if od.err == nil && !od.paniced && !(kind == "DSignature" && other == "DSignature") {
					c.Fail("C05/cross-kind", fmt.Sprintf("%s decoder accepted a %s encoding", other, kind), map[string]any{"data": hx(base), "kind": other})
				}
			}
			// structural faults
			for j := 0; j < 3; j++ {
				m := t.Clone()
				desc := mutateTree(r, &m)
				if j == 2 {
					desc += "+" + mutateTree(r, &m)
				}
				md := decodeCase(c, "tree-fault/"+desc, kind, m.Ser())
				c05Oracle(c, kind, m.Ser(), &md)
			}
			// byte faults
			b, desc := mutateBytes(r, base)
			bd := decodeCase(c, "byte-fault/"+desc, kind, b)
			c05Oracle(c, kind, b, &bd)
		}
		for i := 0; i < n/4; i++ {
			rb := r.Bytes(r.Intn(24))
			rd := decodeCase(c, "random-bytes", kind, rb)
			c05Oracle(c, kind, rb, &rd)
		}
	}
}

// strip55799 removes every self-described-CBOR tag wrapper (also inside
// protected-header byte strings of the envelope positions).
func strip55799(w *W, openBstr bool) *W {
	if w.Maj == 6 && w.Val == 55799 {
		return strip55799(w.Kids[0], openBstr)
	}
	c := *w
	c.Kids = make([]*W, len(w.Kids))
	for i, k := range w.Kids {
		c.Kids[i] = strip55799(k, false)
	}
	return &c
}

func stripInProtected(kind string, data []byte) []byte {
	w, err := refParseFull(data)
	if err != nil {
		return data
	}
	var fix func(n *W)
	fixProt := func(p *W) {
		if p.Maj == 2 && len(p.Str) > 0 {
			if inner, err := refParseFull(p.Str); err == nil {
				p.Str = strip55799(inner, false).Ser()
				p.Width = pickW(uint64(len(p.Str)), -1)
			}
		}
	}
	fix = func(n *W) {
		if n.Maj == 4 && len(n.Kids) >= 3 && n.Kids[0].Maj == 2 && n.Kids[1].Maj == 5 {
			fixProt(n.Kids[0])
		}
		for _, k := range n.Kids {
			fix(k)
		}
	}
	switch kind {
	case "DProt":
		fixProt(w)
	case "DUnprot":
		w = strip55799(w, false)
		fix(w)
	default:
		fix(w)
	}
	return w.Ser()
}

// c05Oracle: whatever a decoder accepts must satisfy the C05 conditions, checked
// on the bytes by the harness's own reader.
func c05Oracle(c *Collector, kind string, data []byte, d *decoded) {
	if d.err != nil || d.paniced {
		return
	}
	if err := refMessageOK(kind, data); err != nil {
		key := "C05/accepted-malformed"
		if bytes.Contains(data, []byte{0xd9, 0xd9, 0xf7}) && refMessageOK(kind, stripInProtected(kind, data)) == nil {
			// the only fault is a self-described tag (55799) that the CBOR library strips
			key = "C05/selfdescribed-tag-stripped"
		}
		c.Fail(key, kind+" decoder accepted input violating C05: "+err.Error(), map[string]any{"kind": kind, "data": hx(data)})
	}
}

// c05GovernedGrid: every parameter the RFC gives a type to (1 alg, 2 crit, 3 content type, 4 kid, 5 IV, 6 Partial IV,
// 7 / 11 countersignature, 9 / 12 abbreviated countersignature, 16 typ) x every shape a CBOR value can have (null,
// undefined, booleans, integers, empty and non-empty byte and text strings, arrays, maps, floats; for crit also byte
// strings and arrays whose elements happen to be numbers of labels that are present) x both buckets x four layers
// (standalone bucket, COSE_Sign1, a signer of a COSE_Sign, a countersignature nested in a COSE_Sign1): whatever a
// decoder accepts satisfies the section 3.1 rules (own reference reader), and the model gives the same verdict.
func c05GovernedGrid(c *Collector) {
	shapes := func() []*W {
		return []*W{wNull(), wUndef(), wBool(true), wBool(false), wInt(0, -1), wInt(1, -1), wInt(-7, -1), wInt(24, -1),
			wBstr(nil, -1), wBstr([]byte{1}, -1), wBstr([]byte{1, 4}, -1), wTstr("", -1), wTstr("a", -1), wTstr("a/b", -1),
			wArr(-1), wArr(-1, wInt(1, -1)), wArr(-1, wInt(4, -1)), wArr(-1, wNull()), wArr(-1, wBstr([]byte{1}, -1)), wArr(-1, wInt(1, -1), wInt(4, -1)),
			wMap(-1), wMap(-1, wInt(1, -1), wInt(4, -1)), wFloat16bits(0x3c00), wFloat64(1.5),
			wArr(-1, wBstr(nil, -1), wMap(-1), wBstr([]byte{1}, -1)),
			wSimple(0), wSimple(16), wSimple(19), wSimple(32), wSimple(255),
			&W{Maj: 0, Width: 8, Val: 1 << 63}, &W{Maj: 0, Width: 8, Val: 1<<64 - 1}, &W{Maj: 1, Width: 8, Val: 1 << 63}, wTag(2, -1, wBstr([]byte{1, 0, 0, 0, 0, 0, 0, 0, 0}, -1))}
	}
	for _, label := range []int64{1, 2, 3, 4, 5, 6, 7, 9, 11, 12, 16} {
		for si := range shapes() {
			for _, protected := range []bool{true, false} {
				mkBuckets := func() (*W, *W) {
					v := shapes()[si]
					kv := []*W{}
					if label != 1 {
						kv = append(kv, wInt(1, -1), wInt(-7, -1))
					}
					if label != 4 {
						kv = append(kv, wInt(4, -1), wBstr([]byte("k"), -1))
					}
					kv = append(kv, wInt(label, -1), v)
					if protected {
						return wBstr(wMap(-1, kv...).Ser(), -1), wMap(-1)
					}
					return wBstr(wMap(-1, wInt(1, -1), wInt(-7, -1)).Ser(), -1), wMap(-1, kv[len(kv)-2:]...)
				}
				class := fmt.Sprintf("governed-grid/label-%d/protected=%v", label, protected)
				run := func(kind string, w *W) {
					b := w.Ser()
					d := decodeCase(c, class, kind, b)
					c05Oracle(c, kind, b, &d)
				}
				pb, ub := mkBuckets()
				if protected {
					run("DProt", pb)
				} else {
					run("DUnprot", ub)
				}
				pb, ub = mkBuckets()
				run("DSign1", wTag(18, -1, wArr(-1, pb, ub, wBstr([]byte("p"), -1), wBstr([]byte{1}, -1))))
				pb, ub = mkBuckets()
				run("DSignMsg", wTag(98, -1, wArr(-1, wBstr(nil, -1), wMap(-1), wBstr([]byte("p"), -1), wArr(-1, wArr(-1, pb, ub, wBstr([]byte{1}, -1))))))
				pb, ub = mkBuckets()
				run("DSign1", wTag(18, -1, wArr(-1, wBstr(nil, -1), wMap(-1, wInt(7, -1), wArr(-1, pb, ub, wBstr([]byte{1}, -1))), wBstr([]byte("p"), -1), wBstr([]byte{1}, -1))))
			}
		}
	}
}

// c05IVPairs: IV (5) and Partial IV (6) together - in one bucket or one in each - with every combination of empty and
// non-empty byte strings, in the four layers: the two never coexist in a layer, however short either of them is.
func c05IVPairs(c *Collector) {
	vals := [][]byte{{}, {1}, {1, 2, 3, 4, 5, 6, 7, 8}}
	for _, iv := range vals {
		for _, piv := range vals {
			for _, place := range []string{"both-protected", "both-unprotected", "iv-protected", "iv-unprotected"} {
				mk := func() (*W, *W) {
					pkv := []*W{wInt(1, -1), wInt(-7, -1)}
					ukv := []*W{}
					ivp, pivp := wBstr(iv, -1), wBstr(piv, -1)
					switch place {
					case "both-protected":
						pkv = append(pkv, wInt(5, -1), ivp, wInt(6, -1), pivp)
					case "both-unprotected":
						ukv = append(ukv, wInt(5, -1), ivp, wInt(6, -1), pivp)
					case "iv-protected":
						pkv = append(pkv, wInt(5, -1), ivp)
						ukv = append(ukv, wInt(6, -1), pivp)
					default:
						ukv = append(ukv, wInt(5, -1), ivp)
						pkv = append(pkv, wInt(6, -1), pivp)
					}
					return wBstr(wMap(-1, pkv...).Ser(), -1), wMap(-1, ukv...)
				}
				run := func(kind string, w *W) {
					b := w.Ser()
					d := decodeCase(c, "iv-pairs/"+place, kind, b)
					c05Oracle(c, kind, b, &d)
				}
				pb, ub := mk()
				if place == "both-protected" {
					run("DProt", pb)
				}
				if place == "both-unprotected" {
					run("DUnprot", ub)
				}
				pb, ub = mk()
				run("DSign1", wTag(18, -1, wArr(-1, pb, ub, wBstr([]byte("p"), -1), wBstr([]byte{1}, -1))))
				pb, ub = mk()
				run("DSign1U", wArr(-1, pb, ub, wBstr([]byte("p"), -1), wBstr([]byte{1}, -1)))
				pb, ub = mk()
				run("DSignature", wArr(-1, pb, ub, wBstr([]byte{1}, -1)))
				pb, ub = mk()
				run("DSignMsg", wTag(98, -1, wArr(-1, pb, ub, wBstr([]byte("p"), -1), wArr(-1, wArr(-1, wBstr(nil, -1), wMap(-1), wBstr([]byte{1}, -1))))))
				pb, ub = mk()
				run("DSignMsg", wTag(98, -1, wArr(-1, wBstr(nil, -1), wMap(-1), wBstr([]byte("p"), -1), wArr(-1, wArr(-1, pb, ub, wBstr([]byte{1}, -1))))))
				pb, ub = mk()
				run("DSign1", wTag(18, -1, wArr(-1, wBstr(nil, -1), wMap(-1, wInt(11, -1), wArr(-1, pb, ub, wBstr([]byte{1}, -1))), wBstr([]byte("p"), -1), wBstr([]byte{1}, -1))))
			}
		}
	}
}

// c05BigIntNeighbours: an integer beyond int64 as the value of a free parameter, next to a parameter that breaks a rule
// (kid as an integer, IV with Partial IV, content type as a byte string) or to a nested map with a duplicate key: the
// first fault the CBOR library reports must not hide the others. In the protected and the unprotected bucket, four layers.
func c05BigIntNeighbours(c *Collector) {
	bigs := []*W{{Maj: 0, Width: 8, Val: 1 << 63}, {Maj: 0, Width: 8, Val: 1<<64 - 1}, {Maj: 1, Width: 8, Val: 1 << 63}}
	faults := [][]*W{
		{wInt(4, -1), wInt(1, -1)},
		{wInt(5, -1), wBstr([]byte{1}, -1), wInt(6, -1), wBstr([]byte{1}, -1)},
		{wInt(3, -1), wBstr([]byte{1}, -1)},
		{wInt(111, -1), wMap(-1, wInt(1, -1), wInt(1, -1), wInt(1, -1), wInt(2, -1))},
		{wInt(2, -1), wArr(-1, wInt(99, -1))},
		{},
	}
	for _, big := range bigs {
		for _, bigLabel := range []int64{0, 10, 1000} { // before and after the faulty parameter in encoding order
			for fi, fault := range faults {
				for _, protected := range []bool{true, false} {
					mk := func() (*W, *W) {
						kv := []*W{wInt(bigLabel, -1), big.Clone()}
						for _, f := range fault {
							kv = append(kv, f.Clone())
						}
						if protected {
							kv = append(kv, wInt(1, -1), wInt(-7, -1))
							return wBstr(wMap(-1, kv...).Ser(), -1), wMap(-1)
						}
						return wBstr(wMap(-1, wInt(1, -1), wInt(-7, -1)).Ser(), -1), wMap(-1, kv...)
					}
					if !protected && fi == 4 {
						continue
					}
					run := func(kind string, w *W) {
						b := w.Ser()
						d := decodeCase(c, "bigint-neighbours", kind, b)
						c05Oracle(c, kind, b, &d)
					}
					pb, ub := mk()
					if protected {
						run("DProt", pb)
					} else {
						run("DUnprot", ub)
					}
					pb, ub = mk()
					run("DSign1", wTag(18, -1, wArr(-1, pb, ub, wBstr([]byte("p"), -1), wBstr([]byte{1}, -1))))
					pb, ub = mk()
					run("DSignMsg", wTag(98, -1, wArr(-1, wBstr(nil, -1), wMap(-1), wBstr([]byte("p"), -1), wArr(-1, wArr(-1, pb, ub, wBstr([]byte{1}, -1))))))
					pb, ub = mk()
					run("DSign1", wTag(18, -1, wArr(-1, wBstr(nil, -1), wMap(-1, wInt(7, -1), wArr(-1, pb, ub, wBstr([]byte{1}, -1))), wBstr([]byte("p"), -1), wBstr([]byte{1}, -1))))
				}
			}
		}
	}
}

// c05TinyProtected: protected buckets whose byte string wraps exactly one octet (every value) or two octets (every map,
// array, string and tag head followed by every kind of second octet): only a0 is a map with nothing missing. As a bare
// bucket and inside a COSE_Sign1, a COSE_Signature and a nested countersignature.
func c05TinyProtected(c *Collector) {
	run := func(kind string, b []byte) {
		d := decodeCase(c, "tiny-protected", kind, b)
		c05Oracle(c, kind, b, &d)
	}
	wrap := func(content []byte) {
		pb := append([]byte{0x40 | byte(len(content))}, content...)
		run("DProt", pb)
		if content[0]>>5 == 5 || content[0] == 0x40 || content[0] == 0x80 {
			run("DSign1", append(append([]byte{0xd2, 0x84}, pb...), 0xa0, 0x41, 0x70, 0x41, 0x01))
			run("DSignature", append(append([]byte{0x83}, pb...), 0xa0, 0x41, 0x01))
			run("DSign1", append(append(append([]byte{0xd2, 0x84, 0x40, 0xa1, 0x07, 0x83}, pb...), 0xa0, 0x41, 0x01), 0x41, 0x70, 0x41, 0x01))
		}
	}
	for b := 0; b < 256; b++ {
		wrap([]byte{byte(b)})
	}
	for _, first := range []byte{0xa0, 0xa1, 0xa2, 0xb7, 0xb8, 0xbf, 0x80, 0x40, 0x60, 0xc0} {
		for _, second := range []byte{0x00, 0x01, 0x17, 0x18, 0x20, 0x40, 0x60, 0x80, 0xa0, 0xf6, 0xff} {
			wrap([]byte{first, second})
		}
	}
}
