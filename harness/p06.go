package main

import (
	"fmt"
	"strings"
	"time"

	cose "github.com/veraison/go-cose"
)

func init() { runners["C06"] = runC06 }

func addCase(c *Collector, class, op, obs string, nontrivial bool) {
	if hasOther(op) || hasOther(obs) {
		c.Dist["skipped-unrenderable"]++
		return
	}
	c.Add(class, op, obs, nontrivial)
}

// followUps runs the operations reachable from a decoded value; every panic is a violation.
func followUps(c *Collector, r *Rng, kind string, data []byte, d *decoded) {
	rep := map[string]any{"kind": kind, "data": hx(data)}
	inflight("follow-up operations (re-encode, Verify, Countersign0, Countersignature.Sign / Verify over the decoded value and its nested countersignatures, key conversion) on the value decoded from", kind, data)
	panicFail := func(what string, p bool) {
		if p {
			c.Fail("C06/panic-followup/"+what, what+" panicked on a value returned by the "+kind+" decoder", rep)
		}
	}
	ext := pick(r, [][]byte{nil, {}, []byte("ext")})
	vf := &spyVerifier{alg: pick(r, []cose.Algorithm{cose.AlgorithmES256, cose.AlgorithmPS256, cose.AlgorithmEdDSA, -65536})}
	sg := &spySigner{alg: vf.alg, kind: SOk, sig: []byte{1, 2, 3}}
	// the built-in verifiers (real keys of every algorithm) on whatever was decoded: an error, never a panic
	realVerify := func(what string, f func(v cose.Verifier)) {
		for _, k := range realKeySet(r) {
			v := k.verifier()
			if p, val := protect(func() { f(v) }); p {
				c.Fail("C06/panic-followup/"+what, fmt.Sprintf("%s with the built-in %v verifier panicked on a value returned by the %s decoder: %v", what, k.alg, kind, val), rep)
				return
			}
		}
	}
	switch {
	case d.s1 != nil:
		realVerify("Sign1Message.Verify", func(v cose.Verifier) {
			d.s1.Verify([]byte("ext"), v)
			cose.VerifyCountersign0(v, d.s1, nil, d.s1.Signature)
		})
		op, obs, _, p := execVerify1(d.s1, ext, vf)
		panicFail("Sign1Message.Verify", p)
		addCase(c, "followup/verify1", op, obs, true)
		par := parentOf(d.s1, r.Bool())
		op, obs, _, _, p = execCsign0(sg, par, ext)
		panicFail("Countersign0", p)
		addCase(c, "followup/countersign0-sign1", op, obs, true)
		cs := cose.NewCountersignature()
		op, obs, _, p = execCsign(cs, sg, par, ext)
		panicFail("Countersignature.Sign", p)
		addCase(c, "followup/countersign-sign1", op, obs, true)
		// nested countersignatures found in the header
		for _, v := range d.s1.Headers.Unprotected {
			if csig, ok := v.(*cose.Countersignature); ok {
				op, obs, _, p := execCverify(csig, vf, par, ext)
				panicFail("Countersignature.Verify", p)
				addCase(c, "followup/verify-nested-countersignature", op, obs, true)
			}
		}
	case d.sig != nil:
		realVerify("Signature.Verify", func(v cose.Verifier) {
			d.sig.Verify(v, []byte{0x40}, []byte("payload"), []byte("ext"))
			(*cose.Countersignature)(d.sig).Verify(v, &cose.Sign1Message{Headers: cose.Headers{Protected: cose.ProtectedHeader{}}, Payload: []byte("p"), Signature: []byte{1}}, []byte("ext"))
		})
		bp := pick(r, [][]byte{{0x40}, {0x43, 0xa1, 0x01, 0x26}, {}, {0xa0}})
		op, obs, _, p := execSigVerify(d.sig, vf, bp, []byte("payload"), ext)
		panicFail("Signature.Verify", p)
		addCase(c, "followup/sigverify", op, obs, true)
		par := parentOf(d.sig, r.Bool())
		if r.Bool() {
			par = parentOf((*cose.Countersignature)(d.sig), r.Bool())
		}
		op, obs, _, p = execCverify0(vf, par, ext, []byte{9, 9})
		panicFail("VerifyCountersign0", p)
		addCase(c, "followup/verifycountersign0-signature", op, obs, true)
	case d.sm != nil:
		vfs := make([]*spyVerifier, len(d.sm.Signatures))
		for i := range vfs {
			vfs[i] = &spyVerifier{alg: vf.alg}
		}
		op, obs, _, p := execVerifyMsg(d.sm, ext, vfs)
		panicFail("SignMessage.Verify", p)
		addCase(c, "followup/verifymsg", op, obs, true)
		par := parentOf(d.sm, r.Bool())
		op, obs, _, _, p = execCsign0(sg, par, ext)
		panicFail("Countersign0", p)
		addCase(c, "followup/countersign0-signmsg", op, obs, true)
		// every signature of the decoded message as the parent of a countersignature; no model case is added for
		// a nil element (the decoder must not have produced one: judged by C05), the call just must not panic
		for _, sgn := range d.sm.Signatures {
			var parent any = sgn
			p, _ := protect(func() {
				cose.Countersign0(nil, sg, parent, ext)
				cose.VerifyCountersign0(vf, parent, ext, []byte{1})
				cs := cose.NewCountersignature()
				cs.Sign(nil, sg, parent, ext)
				cs.Signature = []byte{1}
				cs.Verify(vf, parent, ext)
				if sgn != nil {
					sgn.MarshalCBOR()
				}
			})
			panicFail("countersigning a decoded COSE_Signature", p)
		}
	case d.key != nil:
		op, obs, _, _, p := execKeyPublic(d.key)
		panicFail("Key.PublicKey", p)
		addCase(c, "followup/key-public", op, obs, true)
		op, obs, _, _, p = execKeyPrivate(d.key)
		panicFail("Key.PrivateKey", p)
		addCase(c, "followup/key-private", op, obs, true)
		op, obs, _, _, p = execKeySigner(d.key)
		panicFail("Key.Signer", p)
		addCase(c, "followup/key-signer", op, obs, true)
		op, obs, _, _, p = execKeyVerifier(d.key)
		panicFail("Key.Verifier", p)
		addCase(c, "followup/key-verifier", op, obs, true)
		p, _ = protect(func() { d.key.AlgorithmOrDefault(); d.key.EC2(); d.key.OKP(); d.key.Symmetric() })
		panicFail("Key accessors", p)
		// whatever signer / verifier the key yields is then used: an error is fine, a panic is not
		p, _ = protect(func() {
			if v, err := d.key.Verifier(); err == nil && v != nil {
				v.Verify([]byte("content"), make([]byte, 64))
				v.Verify([]byte("content"), make([]byte, 114))
				v.Verify(nil, nil)
			}
		})
		panicFail("verifying with the verifier a decoded key yields", p)
		p, _ = protect(func() {
			if s, err := d.key.Signer(); err == nil && s != nil {
				s.Sign(r, []byte("content"))
			}
		})
		panicFail("signing with the signer a decoded key yields", p)
	}
}

func runC06(c *Collector, r *Rng, thorough bool) {
	c.Rule = "9 decoding entry points x {conforming inputs with random encoder choices, 1-2 structural faults at random tree nodes, byte faults, random bytes}; every accepted value then goes through re-encoding, Verify, Countersign0, Countersignature.Sign/Verify, key conversion; each call runs under recover and a deadline; non-trivial = accepted by the decoder (follow-ups ran) or mutant of a conforming input; distinct by op term"
	n := 60
	if thorough {
		n = 3000
	}
	kinds := []string{"DSign1", "DSign1U", "DSignature", "DSignMsg", "DProt", "DUnprot", "DKey"}
	var concIn []string
	slow := 0
	// a call that does not return ends the run: it is reported with its input, and nothing else can be trusted
	defer func() {
		if v := recover(); v != nil {
			if _, ok := v.(hangAbort); !ok {
				panic(v)
			}
		}
	}()
	timed := func(kind string, data []byte) decoded {
		t0 := time.Now()
		var d decoded
		inflight("decoding", kind, data)
		withDeadline(c, "C06/hang", "decoding with the "+kind+" decoder", map[string]any{"kind": kind, "data": hx(data)}, func() { d = decodeCase(c, "decode/"+kind, kind, data) })
		if el := time.Since(t0); el > 2*time.Second {
			slow++
			c.Fail("C06/slow", "decoding took "+el.String(), map[string]any{"kind": kind, "data": hx(data)})
		}
		return d
	}
	for _, kind := range kinds {
		for i := 0; i < n; i++ {
			t := genTreeOfKind(r, kind, defaultCfg)
			if r.Bool() {
				t.RandWidths(r, 1, 3, isEnvelopeHead(kind, t))
				t.ShuffleMaps(r)
			}
			inputs := [][]byte{t.Ser()}
			for j := 0; j < 3; j++ {
				m := t.Clone()
				mutateTree(r, &m)
				if j == 2 {
					mutateTree(r, &m)
				}
				inputs = append(inputs, m.Ser())
			}
			b, _ := mutateBytes(r, inputs[0])
			inputs = append(inputs, b)
			if i%4 == 0 {
				inputs = append(inputs, r.Bytes(r.Intn(20)))
			}
			for _, in := range inputs {
				d := timed(kind, in)
				if d.err == nil && !d.paniced {
					followUps(c, r, kind, in, &d)
				}
				if len(concIn) < 140 && !d.paniced && (d.err == nil || i%5 == 0) {
					concIn = append(concIn, kind+" "+hx(in))
				}
			}
		}
	}
	// decoders share nothing: the same inputs decoded from 16 goroutines at once (in a child process, because a
	// fatal runtime error such as "concurrent map writes" cannot be recovered) give the results of decoding them alone
	{
		heIn := wTag(18, -1, wArr(-1, wBstr(wMap(-1, wInt(1, -1), wInt(-7, -1), wInt(258, -1), wInt(-16, -1)).Ser(), -1), wMap(-1, wInt(4, -1), wBstr([]byte("k"), -1)), wBstr(make([]byte, 32), -1), wBstr([]byte{1}, -1))).Ser()
		concIn = append(concIn, "VerifyHE "+hx(heIn))
		concurrentDecoders(c, "C06/concurrent-decoders", concIn)
	}
	// corpus: minimised inputs of earlier findings and of seeded changes run on every check
	for _, cs := range []struct{ kind, hex string }{
		{"DProt", "43a11060"}, {"DUnprot", "a11060"}, {"DProt", "43a10360"}, {"DUnprot", "a10360"}, {"DSign1", "d28443a11060a0f64100"},
		{"DSign1U", "8443a11060a0f64100"}, {"DSignature", "8343a11060a04100"}, {"DSignMsg", "d8628443a11060a0f6818340a04100"},
		{"DSignMsg", "d8628440a043666f6f81f6"}, {"DSignMsg", "d8628440a043666f6f828340a04101f7"}, {"DSignMsg", "d8628440a043666f6f82f68340a04101"},
		{"DProt", "45a1036161"}, {"DProt", "44a1106120"},
		{"DKey", "a20102206161"}, {"DKey", "a201022061"}, {"DKey", "a3010120062358" + "40" + zeros(64)},
		{"DKey", "a30101200623" + "50" + zeros(16)}, {"DKey", "a3010120062358" + "21" + zeros(33)},
		{"DKey", "a401012006215820" + zeros(32) + "235840" + zeros(64)}, {"DKey", "a3010220012358" + "42" + zeros(66)},
		{"DKey", "a30104200623" + "5820" + zeros(32)}, {"DKey", "a4010403272006" + "235820" + zeros(32)},
		// signatures of the right size whose r or s half (or both) is zero, under every ECDSA algorithm, with and
		// without alg in the protected bucket
		{"DSign1", "d28443a10126a0f6" + "5840" + zeros(64)}, {"DSign1", "d28443a10126a0f6" + "5840" + zeros(32) + ones(32)}, {"DSign1", "d28443a10126a0f6" + "5840" + ones(32) + zeros(32)},
		{"DSign1", "d28444a1013822a0f6" + "5860" + zeros(96)}, {"DSign1", "d28444a1013823a0f6" + "5884" + zeros(132)}, {"DSign1", "d28444a1013823a0f6" + "5884" + ones(66) + zeros(66)},
		{"DSign1", "d28440a0f6" + "5840" + zeros(64)}, {"DSign1", "d28440a0f6" + "5860" + zeros(96)}, {"DSign1", "d28440a0f6" + "5884" + zeros(132)}, {"DSign1", "d28440a0f64100"},
		{"DSignature", "8343a10126a0" + "5840" + zeros(64)}, {"DSignature", "8340a0" + "5884" + zeros(66) + ones(66)},
		// curve identifiers outside the registry (negative, private use, huge) on otherwise complete EC2 / OKP keys,
		// with and without alg
		{"DKey", "a501022020" + "215820" + ones(32) + "225820" + ones(32) + "235820" + ones(32)}, {"DKey", "a5010203262020" + "215820" + ones(32) + "225820" + ones(32)},
		{"DKey", "a40102203a00010000" + "215820" + ones(32) + "225820" + ones(32)}, {"DKey", "a401012021" + "215820" + ones(32) + "235820" + ones(32)},
		{"DKey", "a4010103272021" + "215820" + ones(32)}, {"DKey", "a40102201b7fffffffffffffff" + "215820" + ones(32) + "225820" + ones(32)},
		{"DKey", "a40102203b7fffffffffffffff" + "215820" + ones(32) + "225820" + ones(32)}, {"DKey", "a301012018ff" + "215820" + ones(32)}, {"DKey", "a30102200a" + "215820" + ones(32)},
		// EC2 keys with a compressed point (y given as the sign bit), x on and off the curve
		{"DKey", "a40102200121" + "5820" + zeros(31) + "01" + "22f5"}, {"DKey", "a40102200121" + "5820" + zeros(31) + "01" + "22f4"},
		{"DKey", "a40102200121" + "5820" + zeros(31) + "05" + "22f5"}, {"DKey", "a40102200321" + "5842" + zeros(65) + "03" + "22f5"},
		{"DKey", "a50102200121" + "5820" + zeros(31) + "01" + "22f5" + "23" + "5820" + ones(32)},
		// countersignature parameters (7, 11) holding an empty list, a list of nulls, nested empty lists, in every decoder
		{"DUnprot", "a10780"}, {"DUnprot", "a10b80"}, {"DUnprot", "a10781f6"}, {"DUnprot", "a10b82f6f6"}, {"DUnprot", "a1078180"}, {"DUnprot", "a107818340a04101" + ""}, {"DUnprot", "a10782" + "8340a04101" + "f6"},
		{"DSign1", "d28440a1078041014100"}, {"DSign1", "d28440a10b81f641014100"}, {"DSign1U", "8440a1078041014100"}, {"DSignature", "8340a107804101"}, {"DSignature", "8340a10b81f64101"},
		{"DSignMsg", "d8628440a10780f6818340a04101"}, {"DSignMsg", "d8628440a0f6818340a107804101"}, {"DSign1", "d28440a1078340a107804101" + "41014100"}, {"DSign1", "d28440a107818340a10b81f64101" + "41014100"},
		// inputs that end inside a multi-octet head (byte string, map, array, tag, integer), given to the bucket decoders
		// directly and inside messages
		{"DProt", "58"}, {"DProt", "59"}, {"DProt", "5900"}, {"DProt", "5a"}, {"DProt", "5a00"}, {"DProt", "5a0000"}, {"DProt", "5a000000"}, {"DProt", "5b"}, {"DProt", "5b00"}, {"DProt", "5b000000"},
		{"DProt", "5b00000000000000"}, {"DProt", "5f"}, {"DProt", "41"}, {"DProt", "4201"}, {"DProt", "43a101"}, {"DProt", "44a10118"}, {"DProt", "45a1011901"},
		{"DUnprot", "b8"}, {"DUnprot", "b9"}, {"DUnprot", "b900"}, {"DUnprot", "ba"}, {"DUnprot", "ba000000"}, {"DUnprot", "bb"}, {"DUnprot", "bb00000000000000"}, {"DUnprot", "a1"}, {"DUnprot", "a101"}, {"DUnprot", "a10118"}, {"DUnprot", "a1011b00"}, {"DUnprot", "a104"}, {"DUnprot", "a10458"},
		{"DSign1", "d2"}, {"DSign1", "d284"}, {"DSign1", "d28458"}, {"DSign1", "d2845900"}, {"DSign1", "d28440b8"}, {"DSign1", "d28440a058"}, {"DSign1", "d28440a0f658"}, {"DSign1U", "84"}, {"DSign1U", "8458"}, {"DSign1U", "98"}, {"DSign1U", "9800"},
		{"DSignature", "83"}, {"DSignature", "8358"}, {"DSignature", "8340b9"}, {"DSignMsg", "d8"}, {"DSignMsg", "d862"}, {"DSignMsg", "d86284"}, {"DSignMsg", "d8628440a0f698"}, {"DSignMsg", "d8628440a0f68183"}, {"DSignMsg", "d8628440a0f6818358"}, {"DKey", "b8"}, {"DKey", "a1"}, {"DKey", "a101"}, {"DKey", "a10118"},
		// OKP keys on every registered curve (X25519 4, X448 5, Ed25519 6, Ed448 7) and an unregistered one with x and d
		// of 32, 56 and 57 octets, with and without alg EdDSA
		{"DKey", "a30101200721" + "5839" + ones(57)}, {"DKey", "a4010103272007" + "215839" + ones(57)}, {"DKey", "a30101200723" + "5839" + ones(57)}, {"DKey", "a401012007" + "215839" + ones(57) + "235839" + ones(57)},
		{"DKey", "a30101200521" + "5838" + ones(56)}, {"DKey", "a30101200523" + "5838" + ones(56)}, {"DKey", "a30101200421" + "5820" + ones(32)}, {"DKey", "a30101200423" + "5820" + ones(32)},
		{"DKey", "a30101200721" + "5820" + ones(32)}, {"DKey", "a30101200621" + "5839" + ones(57)}, {"DKey", "a30101200621" + "5838" + ones(56)}, {"DKey", "a30101200821" + "5839" + ones(57)},
		{"DKey", "a4010103272005" + "215838" + ones(56)}, {"DKey", "a30101200723" + "5820" + ones(32)},
		// key_ops entries outside the registry: negative, beyond the word size, extreme; alone and next to sign / verify
		{"DKey", "a40101048120" + "2006" + "215820" + ones(32)}, {"DKey", "a4010104820120" + "2006" + "235820" + ones(32)}, {"DKey", "a401010483200102" + "2006" + "215820" + ones(32)},
		{"DKey", "a401010481383f" + "2006" + "215820" + ones(32)}, {"DKey", "a40101048138ff" + "2006" + "235820" + ones(32)}, {"DKey", "a4010104811840" + "2006" + "215820" + ones(32)},
		{"DKey", "a40101048118ff" + "2006" + "235820" + ones(32)}, {"DKey", "a401010481" + "1b7fffffffffffffff" + "2006" + "215820" + ones(32)}, {"DKey", "a401010481" + "3b7fffffffffffffff" + "2006" + "235820" + ones(32)},
		{"DKey", "a401010482" + "3b7fffffffffffffff02" + "2006" + "215820" + ones(32)}, {"DKey", "a5010204812020012158" + "20" + ones(32) + "225820" + ones(32)},
		{"DKey", "a401010480" + "2006" + "215820" + ones(32)}, {"DKey", "a4010104810020" + "06" + "215820" + ones(32)},
	} {
		in := unhex(cs.hex)
		d := timed(cs.kind, in)
		if d.err == nil && !d.paniced {
			followUps(c, r, cs.kind, in, &d)
		}
	}
	// every registered header label with a value of every CBOR kind, in either bucket, alone and inside a
	// message: the decoders convert some governed values to Go types and must refuse, not panic, on any other kind
	{
		vals := []*W{wInt(1, -1), wInt(-7, -1), wBstr([]byte{1, 2}, -1), wBstr(nil, -1), wTstr("a/b", -1), wTstr("", -1),
			wArr(-1), wArr(-1, wInt(1, -1)), wArr(-1, wTstr("x", -1), wBstr([]byte{1}, -1)), wMap(-1), wMap(-1, wInt(1, -1), wTstr("iss", -1)),
			wNull(), wUndef(), wBool(true), wFloat64(1.5), wTag(1, -1, wInt(0, -1)), wTag(2, -1, wBstr([]byte{1, 0, 0, 0, 0, 0, 0, 0, 0}, -1)),
			wArr(-1, wBstr(nil, -1), wMap(-1), wBstr([]byte{1}, -1)), &W{Maj: 0, Width: 8, Val: 1 << 63}}
		for _, l := range []int64{1, 2, 3, 4, 5, 6, 7, 8, 9, 10, 11, 12, 13, 14, 15, 16, 32, 33, 34, 35, 258, 259, 260, -1, 99} {
			for vi, v := range vals {
				if !thorough && (int(l)+vi)%2 != 0 && l != 15 && l != 1 && l != 2 {
					continue
				}
				m := wMap(-1, wInt(l, -1), v.Clone(), wInt(4, -1), wBstr([]byte("k"), -1))
				if l == 4 {
					m = wMap(-1, wInt(l, -1), v.Clone())
				}
				pb := wBstr(m.Ser(), -1)
				for _, cs := range []struct {
					kind string
					in   []byte
				}{
					{"DProt", pb.Ser()},
					{"DUnprot", m.Ser()},
					{"DSign1", wTag(18, -1, wArr(-1, pb, wMap(-1), wBstr([]byte("p"), -1), wBstr([]byte{1}, -1))).Ser()},
					{"DSignature", wArr(-1, wBstr(nil, -1), m, wBstr([]byte{1}, -1)).Ser()},
				} {
					d := timed(cs.kind, cs.in)
					if d.err == nil && !d.paniced {
						followUps(c, r, cs.kind, cs.in, &d)
					}
				}
			}
		}
	}
	// hostile sizes: huge declared lengths / counts must be refused promptly
	for _, in := range [][]byte{
		{0xd2, 0x84, 0x5b, 0x7f, 0xff, 0xff, 0xff, 0xff, 0xff, 0xff, 0xff},
		{0xd2, 0x84, 0x40, 0xbb, 0x00, 0x00, 0x00, 0x00, 0xff, 0xff, 0xff, 0xff},
		{0x84, 0x40, 0xa0, 0x9a, 0x00, 0x01, 0xff, 0xff},
		{0xd8, 0x62, 0x84, 0x40, 0xa0, 0x40, 0x9b, 0x00, 0x00, 0x00, 0x00, 0x00, 0x02, 0x00, 0x00},
		{0xa1, 0x01, 0x9a, 0x00, 0x02, 0x00, 0x01},
		{0xbb, 0xff, 0xff, 0xff, 0xff, 0xff, 0xff, 0xff, 0xff},
	} {
		for _, kind := range kinds {
			timed(kind, in)
		}
	}
	// hash envelopes whose text parameters (259 preimage content type, 260 location) are unusual strings: media types
	// with several parameters, separators only, very long values; through VerifyHashEnvelope and SignHashEnvelope
	for _, txt := range []string{"text/plain", "text/plain; charset=utf-8", "text/plain; charset=utf-8; format=flowed", "a/b;x=1;y=2", "a/b;x=1;y=2;z=3;w=4", ";;;;", ";", "/", "a/", "/b", "a/b/c",
		" a/b", "a/b ", "a/b;", "a/b;;", "a//b", "", strings.Repeat("a/b;x=1", 300), strings.Repeat(";", 2000), strings.Repeat("/", 2000), "ä/ö; ü=ß; é=è", "a/b\x00;c=d;e=f"} {
		for _, l := range []int64{259, 260} {
			pm := wMap(-1, wInt(1, -1), wInt(-7, -1), wInt(258, -1), wInt(-16, -1), wInt(l, -1), wTstr(txt, -1))
			env := wTag(18, -1, wArr(-1, wBstr(pm.Ser(), -1), wMap(-1), wBstr(make([]byte, 32), -1), wBstr([]byte{1, 2, 3}, -1))).Ser()
			rep := map[string]any{"data": hx(trimTo(env, 300)), "label": l, "text": trunc(txt, 80)}
			withDeadline(c, "C06/hang", "VerifyHashEnvelope", rep, func() {
				op, obs, _, _, p := execVerifyHE(&spyVerifier{alg: -7}, env)
				if p {
					c.Fail("C06/panic/VerifyHashEnvelope", "VerifyHashEnvelope panicked", rep)
				}
				addCase(c, "decode/VerifyHashEnvelope/text-parameters", op, obs, true)
			})
			withDeadline(c, "C06/hang", "SignHashEnvelope", rep, func() {
				hp := cose.HashEnvelopePayload{HashAlgorithm: cose.AlgorithmSHA256, HashValue: make([]byte, 32)}
				if l == 259 {
					hp.PreimageContentType = txt
				} else {
					hp.Location = txt
				}
				if p, _ := protect(func() {
					cose.SignHashEnvelope(nil, &spySigner{alg: -7, kind: SOk, sig: []byte{1}}, cose.Headers{Protected: cose.ProtectedHeader{cose.HeaderLabelAlgorithm: cose.AlgorithmES256}}, hp)
				}); p {
					c.Fail("C06/panic/SignHashEnvelope", "SignHashEnvelope panicked", rep)
				}
			})
		}
	}
	// VerifyHashEnvelope as the 9th entry point
	for i := 0; i < n; i++ {
		t := genSign1Tagged(r, defaultCfg)
		// add the hash-envelope label to the protected map most of the time
		in := t.Ser()
		if r.Chance(1, 3) {
			m := t.Clone()
			mutateTree(r, &m)
			in = m.Ser()
		}
		vf := &spyVerifier{alg: pick(r, []cose.Algorithm{-7, -37, -8, -65536})}
		op, obs, _, _, p := execVerifyHE(vf, in)
		if p {
			c.Fail("C06/panic/VerifyHashEnvelope", "VerifyHashEnvelope panicked", map[string]any{"data": hx(in)})
		}
		addCase(c, "decode/VerifyHashEnvelope", op, obs, true)
	}
	_ = slow
}

func ones(n int) string { return strings.Repeat("01", n) }

// hangAbort leaves a runner after a call did not return in time (its goroutine cannot be stopped)
type hangAbort struct{}

// withDeadline runs f and waits for it; if it does not return within 20 s the failure is recorded and the runner is
// left through a panic(hangAbort{}) that the runner recovers.
func withDeadline(c *Collector, key, what string, rep map[string]any, f func()) {
	done := make(chan any, 1)
	go func() {
		defer func() { done <- recover() }()
		f()
	}()
	select {
	case v := <-done:
		if v != nil {
			panic(v)
		}
	case <-time.After(20 * time.Second):
		c.Fail(key, what+" did not return within 20 s", rep)
		panic(hangAbort{})
	}
}
