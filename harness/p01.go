package main

import (
	"bytes"
	"crypto"
	"crypto/ecdsa"
	"crypto/ed25519"
	"crypto/elliptic"
	crand "crypto/rand"
	"crypto/rsa"
	"errors"
	"fmt"
	"github.com/fxamacker/cbor/v2"
	"math/big"
	"sync"

	cose "github.com/veraison/go-cose"
)

func init() {
	runners["C01"] = runC01
	runners["C03"] = runC03
	runners["C07"] = runC07
}

// ---------- reference crypto (stdlib only) ----------

func algHash(a cose.Algorithm) crypto.Hash {
	switch a {
	case cose.AlgorithmES256, cose.AlgorithmPS256:
		return crypto.SHA256
	case cose.AlgorithmES384, cose.AlgorithmPS384:
		return crypto.SHA384
	case cose.AlgorithmES512, cose.AlgorithmPS512:
		return crypto.SHA512
	}
	return 0
}

// refVerify: is sig a valid signature over tbs under pub and alg's hash, in the COSE form
func refVerify(alg cose.Algorithm, pub crypto.PublicKey, tbs, sig []byte) bool {
	switch k := pub.(type) {
	case *ecdsa.PublicKey:
		n := (k.Curve.Params().N.BitLen() + 7) / 8
		if len(sig) != 2*n {
			return false
		}
		return ecdsa.Verify(k, digestOf(algHash(alg), tbs), new(big.Int).SetBytes(sig[:n]), new(big.Int).SetBytes(sig[n:]))
	case ed25519.PublicKey:
		return ed25519.Verify(k, tbs, sig)
	case *rsa.PublicKey:
		return rsa.VerifyPSS(k, algHash(alg), digestOf(algHash(alg), tbs), sig, &rsa.PSSOptions{SaltLength: rsa.PSSSaltLengthEqualsHash}) == nil
	}
	return false
}

// refSign signs tbs directly with the stdlib, in the COSE form.
func refSign(r *Rng, k realKey, tbs []byte) []byte {
	switch p := k.priv.(type) {
	case *ecdsa.PrivateKey:
		rr, ss, err := ecdsa.Sign(r, p, digestOf(algHash(k.alg), tbs))
		if err != nil {
			panic(err)
		}
		n := (p.Curve.Params().N.BitLen() + 7) / 8
		return append(rr.FillBytes(make([]byte, n)), ss.FillBytes(make([]byte, n))...)
	case ed25519.PrivateKey:
		return ed25519.Sign(p, tbs)
	case *rsa.PrivateKey:
		s, err := rsa.SignPSS(r, p, algHash(k.alg), digestOf(algHash(k.alg), tbs), &rsa.PSSOptions{SaltLength: rsa.PSSSaltLengthEqualsHash})
		if err != nil {
			panic(err)
		}
		return s
	}
	panic("key")
}

// ---------- C01 ----------

func runC01(c *Collector, r *Rng, thorough bool) {
	c.Rule = "real keys of all 7 built-in algorithms (P-256/384/521, Ed25519, RSA-2048; also signers/verifiers built from COSE_Key): sign -> verify in memory, sign -> MarshalCBOR -> UnmarshalCBOR -> verify, detached payload, for Sign1 tagged/untagged, COSE_Sign with 1..3 signers, full and abbreviated countersignatures over the 4 parent kinds (constructed and decoded), hash envelopes; header maps from the in-memory generator, payload/external at boundary lengths; non-trivial = signing succeeded; distinct by structure+alg+inputs"
	keys := realKeySet(r)
	n := 6
	if thorough {
		n = 300
	}
	cfg := BucketCfg{Spell: true, Max: 5, Csig: 1}
	fail := func(key, desc string, rep map[string]any) { c.Fail("C01/"+key, desc, rep) }
	bigCfg := BucketCfg{Spell: true, Max: 40, Csig: 1}
	var delayed []func()
	defer func() {
		for _, f := range delayed {
			f()
		}
	}()
	nOwn := len(keys)
	keys = append(append([]realKey{}, keys...), opaqueKeySet(r)...)
	nFull := n
	for ki, k := range keys {
		n = nFull
		if ki >= nOwn { // keys behind an opaque crypto.Signer: fewer rounds each
			n = nFull/3 + 1
		}
		signer, verifier := k.signer(), k.verifier()
		// signer / verifier built from a COSE_Key (EC2 and OKP only)
		if _, isRSA := k.priv.(*rsa.PrivateKey); !isRSA && r.Bool() {
			if ck, err := cose.NewKeyFromPrivate(k.priv); err == nil {
				if b, err := ck.MarshalCBOR(); err == nil {
					var ck2 cose.Key
					if err := ck2.UnmarshalCBOR(b); err == nil {
						if s2, err := ck2.Signer(); err == nil {
							signer = s2
						}
						if v2, err := ck2.Verifier(); err == nil {
							verifier = v2
						}
					}
				}
			}
		}
		for i := 0; i < n; i++ {
			ext := genGoExternal(r)
			payload := genGoPayload(r)
			if payload == nil {
				payload = []byte{}
			}
			if i == 0 {
				payload = r.Bytes(65536)
				ext = r.Bytes(65535)
			}
			haveAlg := r.Chance(2, 3) || len(ext) == 0
			rep := map[string]any{"alg": k.alg.String(), "key": k.name, "ext": hx(trimTo(ext, 40)), "payload_len": len(payload)}
			cfg := cfg
			if i%3 == 1 {
				cfg = bigCfg // header maps with dozens of entries
			}

			// --- scripted signer: Sign helper output, its decoding and verification, compared with the model ---
			{
				sg := &spySigner{alg: k.alg, kind: SOk, sig: genSigBytes(r)}
				hh := genGoHeaders(r, cfg, k.alg, haveAlg, false)
				tg := r.Bool()
				mp, me := payload, ext
				if len(mp) > 4096 { // boundary lengths with compressible content keep the Coq terms small
					mp = bytes.Repeat([]byte{0xab}, len(mp))
					me = bytes.Repeat([]byte{0xcd}, len(me))
				}
				op, obs, out, herr, p := execHelperSign1(tg, hh, mp, me, sg)
				ext := me
				if !p {
					addCase(c, "model/helper-sign1", op, obs, herr == nil)
					if herr == nil {
						kind := "DSign1U"
						if tg {
							kind = "DSign1"
						}
						d := decodeCase(c, "model/decode-own-output", kind, out)
						if d.err == nil && !d.paniced {
							vf := &spyVerifier{alg: k.alg}
							op, obs, _, _ := execVerify1(d.s1, ext, vf)
							addCase(c, "model/verify-decoded", op, obs, true)
							if len(vf.calls) == 1 && len(sg.calls) == 1 && !bytes.Equal(vf.calls[0].content, sg.calls[0]) {
								c.Fail("C01/tbs-changed-by-roundtrip", "the bytes handed to the verifier after a wire round trip differ from the bytes that were signed", map[string]any{"op": trunc(op, 600)})
							}
						}
					}
				}
			}
			// --- COSE_Sign1, tagged and untagged ---
			for _, tagged := range []bool{true, false} {
				m := &cose.Sign1Message{Headers: genGoHeaders(r, cfg, k.alg, haveAlg, false), Payload: payload}
				rep["headers"] = trunc(cH(&m.Headers), 500)
				if err := m.Sign(r, ext, signer); err != nil {
					c.Eval("sign1/sign-refused", fmt.Sprint(k.name, i, tagged), false)
					continue
				}
				c.Eval(fmt.Sprintf("sign1/%s/tagged=%v", k.alg, tagged), cSign1(m), true)
				if err := m.Verify(ext, verifier); err != nil {
					fail("sign1-memory", "signed message does not verify in memory: "+err.Error(), rep)
				}
				var b []byte
				var err error
				if tagged {
					b, err = m.MarshalCBOR()
				} else {
					b, err = (*cose.UntaggedSign1Message)(m).MarshalCBOR()
				}
				if err != nil {
					c.Eval("sign1/marshal-refused", fmt.Sprint(k.name, i, tagged), false)
					continue
				}
				var m2 cose.Sign1Message
				if tagged {
					err = m2.UnmarshalCBOR(b)
				} else {
					err = (*cose.UntaggedSign1Message)(&m2).UnmarshalCBOR(b)
				}
				if err != nil {
					fail("sign1-own-output-not-decodable", "a signed message was serialised but cannot be parsed back: "+err.Error(), rep)
					continue
				}
				if err := m2.Verify(ext, verifier); err != nil {
					fail("sign1-wire", "signed message does not verify after a wire round trip: "+err.Error(), rep)
				} else {
					// ... and still verifies later, after other messages have been decoded and verified in between
					mm, ee, vv, rr := &m2, ext, verifier, map[string]any{"alg": k.alg.String(), "key": k.name, "data": hx(trimTo(b, 300))}
					delayed = append(delayed, func() {
						if err := mm.Verify(ee, vv); err != nil {
							fail("sign1-wire-later", "a decoded message that verified stops verifying after other messages were decoded: "+err.Error(), rr)
						}
					})
				}
				// the same message as a relay forwards it: the protected bucket's length prefix in another (longer)
				// spelling; the signature covers the content, so it verifies - every time it is asked, and again after
				// the receiver has re-encoded what it decoded
				if w, perr := refParseFull(b); perr == nil && i%2 == 0 {
					body := w
					if w.Maj == 6 {
						body = w.Kids[0]
					}
					if ws := widthsFor(uint64(len(body.Kids[0].Str))); len(ws) > 1 {
						body.Kids[0].Width = ws[1+r.Intn(len(ws)-1)]
						rb := w.Ser()
						var m4 cose.Sign1Message
						var derr error
						if tagged {
							derr = m4.UnmarshalCBOR(rb)
						} else {
							derr = (*cose.UntaggedSign1Message)(&m4).UnmarshalCBOR(rb)
						}
						c.Eval("sign1-respelled-protected/"+k.alg.String(), hx(trimTo(rb, 200)), true)
						if derr != nil {
							fail("sign1-wire", "the message with its protected length prefix re-spelled is refused: "+derr.Error(), rep)
						} else {
							for round := 1; round <= 3; round++ {
								if err := m4.Verify(ext, verifier); err != nil {
									fail("sign1-wire", fmt.Sprintf("the message with its protected length prefix re-spelled does not verify (verification number %d): %v", round, err), rep)
									break
								}
							}
							var rb2 []byte
							var eerr error
							if tagged {
								rb2, eerr = m4.MarshalCBOR()
							} else {
								rb2, eerr = (*cose.UntaggedSign1Message)(&m4).MarshalCBOR()
							}
							var m5 cose.Sign1Message
							if eerr == nil {
								if tagged {
									eerr = m5.UnmarshalCBOR(rb2)
								} else {
									eerr = (*cose.UntaggedSign1Message)(&m5).UnmarshalCBOR(rb2)
								}
							}
							if eerr != nil {
								fail("sign1-own-output-not-decodable", "a decoded and verified message cannot be encoded and parsed back: "+eerr.Error(), rep)
							} else if err := m5.Verify(ext, verifier); err != nil {
								fail("sign1-wire", "a decoded, verified and re-encoded message does not verify: "+err.Error(), rep)
							}
						}
					}
				}
				// detached payload
				det := *m
				det.Payload = nil
				det.Headers = m.Headers
				var db []byte
				if tagged {
					db, err = det.MarshalCBOR()
				} else {
					db, err = (*cose.UntaggedSign1Message)(&det).MarshalCBOR()
				}
				if err == nil {
					var m3 cose.Sign1Message
					if tagged {
						err = m3.UnmarshalCBOR(db)
					} else {
						err = (*cose.UntaggedSign1Message)(&m3).UnmarshalCBOR(db)
					}
					if err == nil {
						if m3.Payload != nil {
							fail("sign1-detached", "detached payload decoded as non-nil", rep)
						}
						m3.Payload = payload
						if err := m3.Verify(ext, verifier); err != nil {
							fail("sign1-detached", "detached message does not verify when the payload is supplied again: "+err.Error(), rep)
						}
					}
				}
				// countersignatures over this (constructed, then decoded) parent
				c01Countersign(c, r, k, signer, verifier, m, &m2, ext, rep)
			}

			// --- COSE_Sign with 1..3 signers of mixed algorithms ---
			nsig := 1 + r.Intn(3)
			sm := &cose.SignMessage{Headers: genGoHeaders(r, cfg, 0, false, false), Payload: payload}
			var signers []cose.Signer
			var verifiers []cose.Verifier
			for j := 0; j < nsig; j++ {
				kj := k
				if j > 0 {
					kj = pick(r, keys)
				}
				sm.Signatures = append(sm.Signatures, &cose.Signature{Headers: genGoHeaders(r, cfg, kj.alg, haveAlg, false)})
				signers = append(signers, kj.signer())
				verifiers = append(verifiers, kj.verifier())
			}
			if err := sm.Sign(r, ext, signers...); err == nil {
				c.Eval(fmt.Sprintf("signmsg/%s/n=%d", k.alg, nsig), cSignMsg(sm), true)
				if err := sm.Verify(ext, verifiers...); err != nil {
					fail("signmsg-memory", "COSE_Sign does not verify in memory: "+err.Error(), rep)
				}
				if b, err := sm.MarshalCBOR(); err == nil {
					var sm2 cose.SignMessage
					if err := sm2.UnmarshalCBOR(b); err == nil {
						if err := sm2.Verify(ext, verifiers...); err != nil {
							fail("signmsg-wire", "COSE_Sign does not verify after a wire round trip: "+err.Error(), rep)
						}
						c01Countersign(c, r, k, signer, verifier, sm, &sm2, ext, rep)
						c01Countersign(c, r, k, signer, verifier, sm.Signatures[0], sm2.Signatures[0], ext, rep)
					} else {
						fail("signmsg-own-output-not-decodable", "a signed COSE_Sign was serialised but cannot be parsed back: "+err.Error(), rep)
					}
				}
			}

			// --- registered parameters that section 3.1 does not govern, in the Go spellings an application has at hand
			// (a certificate chain as [][]byte straight from tls.Certificate, one certificate or several; []any; CWT
			// claims as a typed or a plain map), in either bucket: signed, serialised, parsed back, verified ---
			if i < 2 {
				cert := []byte{0x30, 0x03, 1, 2, 3}
				for vi, pv := range []struct {
					label int64
					val   any
				}{
					{33, cert}, {33, [][]byte{cert}}, {33, [][]byte{cert, cert}}, {33, []any{cert}}, {33, []any{cert, cert}},
					{32, [][]byte{cert}}, {32, []any{cert, cert, cert}}, {34, []any{int64(-16), make([]byte, 32)}}, {35, "https://example.org/c"},
					{15, cose.CWTClaims{int64(1): "iss", int64(4): int64(1700000000), int64(5): int64(4102444800), int64(6): 1.5e9}}, {15, map[any]any{int64(2): "sub"}},
					{13, map[any]any{int64(1): int64(2)}}, {10, []byte{1}}, {-70040, [][]byte{{1}, {2}}}, {-70041, []string{"a", "b"}}, {-70042, []int64{1, 2}},
				} {
					for _, inProtected := range []bool{true, false} {
						h := cose.Headers{Protected: cose.ProtectedHeader{cose.HeaderLabelAlgorithm: k.alg}, Unprotected: cose.UnprotectedHeader{}}
						if inProtected {
							h.Protected[pv.label] = pv.val
						} else {
							h.Unprotected[pv.label] = pv.val
						}
						xm := &cose.Sign1Message{Headers: h, Payload: payload}
						if err := xm.Sign(r, ext, signer); err != nil {
							continue
						}
						xb, err := xm.MarshalCBOR()
						if err != nil {
							continue
						}
						c.Eval("sign1-ungoverned-parameter/"+k.alg.String(), fmt.Sprint(vi, inProtected, i), true)
						prep := map[string]any{"alg": k.alg.String(), "key": k.name, "label": pv.label, "value": fmt.Sprintf("%T", pv.val), "protected": inProtected, "data": hx(trimTo(xb, 300))}
						var back cose.Sign1Message
						if err := back.UnmarshalCBOR(xb); err != nil {
							fail("sign1-own-output-not-decodable", fmt.Sprintf("a signed message carrying parameter %d as %T was serialised but cannot be parsed back: %v", pv.label, pv.val, err), prep)
						} else if err := back.Verify(ext, verifier); err != nil {
							fail("sign1-wire", fmt.Sprintf("a signed message carrying parameter %d as %T does not verify after a wire round trip: %v", pv.label, pv.val, err), prep)
						}
					}
				}
			}
			// --- COSE_Sign whose body protected bucket carries an alg of its own (RFC 9052: alg = int / tstr; nothing
			// checks the body's alg when signing): text identifiers, private-use and unregistered integers ---
			if i < 2 {
				for vi, bodyAlg := range []any{"ES256", "HSS-LMS", "", int64(-65537), int64(-260), int64(7), cose.Algorithm(-65540)} {
					bm := &cose.SignMessage{Headers: cose.Headers{Protected: cose.ProtectedHeader{cose.HeaderLabelAlgorithm: bodyAlg}, Unprotected: cose.UnprotectedHeader{}}, Payload: payload,
						Signatures: []*cose.Signature{{Headers: cose.Headers{Protected: cose.ProtectedHeader{cose.HeaderLabelAlgorithm: k.alg}, Unprotected: cose.UnprotectedHeader{}}}}}
					if err := bm.Sign(r, ext, signer); err != nil {
						continue
					}
					c.Eval("signmsg-body-alg/"+k.alg.String(), fmt.Sprint(vi, i), true)
					brep := map[string]any{"alg": k.alg.String(), "key": k.name, "body_alg": fmt.Sprintf("%T %v", bodyAlg, bodyAlg)}
					if err := bm.Verify(ext, verifier); err != nil {
						fail("signmsg-memory", "COSE_Sign whose body protected bucket names an alg does not verify in memory: "+err.Error(), brep)
					}
					bb, err := bm.MarshalCBOR()
					if err != nil {
						continue
					}
					var back cose.SignMessage
					if err := back.UnmarshalCBOR(bb); err != nil {
						brep["data"] = hx(trimTo(bb, 300))
						fail("signmsg-own-output-not-decodable", "a signed COSE_Sign whose body protected bucket names an alg was serialised but cannot be parsed back: "+err.Error(), brep)
					} else if err := back.Verify(ext, verifier); err != nil {
						fail("signmsg-wire", "COSE_Sign whose body protected bucket names an alg does not verify after a wire round trip: "+err.Error(), brep)
					}
				}
			}
			// --- protected buckets carrying tagged values, integers beyond int64, or nothing but a serialized empty map
			// given as bytes (h'a0'): signed, serialised, parsed back, verified ---
			if i < 2 {
				bigv := new(big.Int).Lsh(big.NewInt(1), 63)
				for vi, extra := range []any{cbor.Tag{Number: 32, Content: "https://example.org/x"}, cbor.Tag{Number: 100, Content: []any{int64(1)}}, *bigv, []any{bigv}, nil} {
					h := cose.Headers{Protected: cose.ProtectedHeader{cose.HeaderLabelAlgorithm: k.alg, int64(-70020): extra}, Unprotected: cose.UnprotectedHeader{}}
					xext := ext
					if extra == nil { // caller-supplied protected bytes: the serialized empty map
						h = cose.Headers{RawProtected: []byte{0x41, 0xa0}, Unprotected: cose.UnprotectedHeader{}}
						xext = []byte("external data") // no alg in the bucket: external data required
					}
					xm := &cose.Sign1Message{Headers: h, Payload: payload}
					if err := xm.Sign(r, xext, signer); err != nil {
						continue
					}
					c.Eval("sign1-protected-special/"+k.alg.String(), fmt.Sprint(vi, i), true)
					xb, err := xm.MarshalCBOR()
					if err != nil {
						continue
					}
					var back cose.Sign1Message
					if err := back.UnmarshalCBOR(xb); err != nil {
						fail("sign1-own-output-not-decodable", fmt.Sprintf("a signed message whose protected bucket holds %T was serialised but cannot be parsed back: %v", extra, err), rep)
					} else if err := back.Verify(xext, verifier); err != nil {
						fail("sign1-wire", fmt.Sprintf("a signed message whose protected bucket holds %T (nil: the bytes 41 a0) does not verify after a wire round trip: %v", extra, err), rep)
					}
				}
			}
			// --- hash envelope ---
			if len(payload) < 100 {
				hv := digestOf(crypto.SHA256, payload)
				h := genGoHeaders(r, BucketCfg{Spell: true, Max: 3}, k.alg, r.Bool(), false)
				delete(h.Protected, int64(3))
				delete(h.Unprotected, int64(3))
				env, err := cose.SignHashEnvelope(r, signer, h, cose.HashEnvelopePayload{HashAlgorithm: cose.AlgorithmSHA256, HashValue: hv, Location: "loc"})
				if err == nil {
					c.Eval("hashenvelope/"+k.alg.String(), hx(env), true)
					if got, err := cose.VerifyHashEnvelope(verifier, env); err != nil {
						var m cose.Sign1Message
						if m.UnmarshalCBOR(env) == nil { // undecodable output is a data-model boundary (C08)
							fail("hashenvelope", "hash envelope does not verify: "+err.Error(), rep)
						}
					} else if got != nil {
						// the decoded envelope's headers re-issued for another artifact (another digest algorithm)
						hv2 := digestOf(crypto.SHA384, payload)
						env2, err := cose.SignHashEnvelope(r, signer, got.Headers, cose.HashEnvelopePayload{HashAlgorithm: cose.AlgorithmSHA384, HashValue: hv2, Location: "loc2"})
						if err == nil {
							c.Eval("hashenvelope-reissued/"+k.alg.String(), hx(env2), true)
							got2, err := cose.VerifyHashEnvelope(verifier, env2)
							if err != nil {
								fail("hashenvelope-reissued", "a hash envelope signed with the headers of a decoded one does not verify: "+err.Error(), rep)
							} else if ha, _ := got2.Headers.Protected.PayloadHashAlgorithm(); ha != cose.AlgorithmSHA384 || !bytes.Equal(got2.Payload, hv2) {
								fail("hashenvelope-reissued", fmt.Sprintf("re-issued hash envelope carries digest algorithm %v and digest %x, signed for SHA-384 and %x", ha, got2.Payload, hv2), rep)
							}
						}
					}
				}
			}
		}
	}
	c01Shared(c, r, keys)
}

func trimTo(b []byte, n int) []byte {
	if len(b) > n {
		return b[:n]
	}
	return b
}

// c01Countersign: full and abbreviated countersignatures over a constructed parent and its decoded copy.
func c01Countersign(c *Collector, r *Rng, k realKey, signer cose.Signer, verifier cose.Verifier, built, decoded any, ext []byte, rep map[string]any) {
	for _, ptr := range []bool{true, false} {
		for idx, parentVal := range []any{built, decoded} {
			par := parentOf(parentVal, ptr)
			if par.coq == "POther" {
				continue
			}
			cs := cose.NewCountersignature()
			cs.Headers.Protected.SetAlgorithm(k.alg)
			if err := cs.Sign(r, signer, par.val, ext); err != nil {
				c.Fail("C01/countersign-refused", "countersigning a signed parent failed: "+err.Error(), rep)
				continue
			}
			c.Eval(fmt.Sprintf("countersign/full/%T/decoded=%v", par.val, idx == 1), k.alg.String()+cSigv((*cose.Signature)(cs)), true)
			// verifies against the constructed and the decoded parent alike
			for _, pv := range []any{built, decoded} {
				if err := cs.Verify(verifier, parentOf(pv, !ptr).val, ext); err != nil {
					c.Fail("C01/countersign-verify", "full countersignature does not verify: "+err.Error(), rep)
				}
			}
			// wire round trip of the countersignature itself
			if b, err := cs.MarshalCBOR(); err == nil {
				var cs2 cose.Countersignature
				if err := cs2.UnmarshalCBOR(b); err == nil {
					if err := cs2.Verify(verifier, par.val, ext); err != nil {
						c.Fail("C01/countersign-wire", "decoded countersignature does not verify: "+err.Error(), rep)
					}
				} else {
					c.Fail("C01/countersign-own-output-not-decodable", "a countersignature was serialised but cannot be parsed back: "+err.Error(), rep)
				}
			}
			sig0, err := cose.Countersign0(r, signer, par.val, ext)
			if err != nil {
				c.Fail("C01/countersign0-refused", "Countersign0 on a signed parent failed: "+err.Error(), rep)
				continue
			}
			c.Eval(fmt.Sprintf("countersign/abbreviated/%T", par.val), k.alg.String()+hx(sig0), true)
			for _, vptr := range []bool{ptr, !ptr} { // the parent handed over by pointer or by value: the same parent
				for _, pv := range []any{built, decoded} {
					if err := cose.VerifyCountersign0(verifier, parentOf(pv, vptr).val, ext, sig0); err != nil {
						c.Fail("C01/countersign0-verify", fmt.Sprintf("abbreviated countersignature made over the parent given as %T does not verify against it given as %T: %v", par.val, parentOf(pv, vptr).val, err), rep)
					}
				}
			}
		}
	}
	// several countersignatures by different holders carried by the parent itself (a list under label 11 / 7 in its
	// unprotected bucket): serialised with the parent, parsed back, each entry verifies against the parsed parent
	for _, label := range []int64{11, 7} {
		var list []*cose.Countersignature
		for e := 0; e < 3; e++ {
			cs := cose.NewCountersignature()
			cs.Headers.Protected.SetAlgorithm(k.alg)
			cs.Headers.Protected[cose.HeaderLabelKeyID] = []byte{byte('a' + e)}
			if err := cs.Sign(r, signer, built, ext); err != nil {
				return
			}
			list = append(list, cs)
		}
		var out []byte
		var err error
		switch m := built.(type) {
		case *cose.Sign1Message:
			cp := *m
			cp.Headers.RawUnprotected = nil
			cp.Headers.Unprotected = cose.UnprotectedHeader{label: list}
			out, err = cp.MarshalCBOR()
			if err != nil {
				return
			}
			var back cose.Sign1Message
			if err := back.UnmarshalCBOR(out); err != nil {
				c.Fail("C01/sign1-own-output-not-decodable", "a signed message carrying a list of countersignatures cannot be parsed back: "+err.Error(), rep)
				return
			}
			got, _ := back.Headers.Unprotected[label].([]*cose.Countersignature)
			c.Eval("countersign/list-in-parent/sign1", fmt.Sprint(label, k.alg), true)
			for e, cs := range got {
				if err := cs.Verify(verifier, &back, ext); err != nil {
					c.Fail("C01/countersign-wire", fmt.Sprintf("countersignature %d of %d carried in the parent's unprotected bucket does not verify against the parsed parent: %v", e, len(got), err), rep)
					break
				}
				if e < len(list) && !bytes.Equal(cs.Signature, list[e].Signature) {
					c.Fail("C01/countersign-wire", fmt.Sprintf("countersignature %d of %d carried in the parent's unprotected bucket comes back as another holder's", e, len(got)), rep)
					break
				}
			}
			if len(got) != len(list) {
				c.Fail("C01/countersign-wire", fmt.Sprintf("%d countersignatures were attached, %d came back", len(list), len(got)), rep)
			}
		case *cose.SignMessage:
			cp := *m
			cp.Headers.RawUnprotected = nil
			cp.Headers.Unprotected = cose.UnprotectedHeader{label: list}
			out, err = cp.MarshalCBOR()
			if err != nil {
				return
			}
			var back cose.SignMessage
			if err := back.UnmarshalCBOR(out); err != nil {
				c.Fail("C01/signmsg-own-output-not-decodable", "a signed COSE_Sign carrying a list of countersignatures cannot be parsed back: "+err.Error(), rep)
				return
			}
			got, _ := back.Headers.Unprotected[label].([]*cose.Countersignature)
			c.Eval("countersign/list-in-parent/signmsg", fmt.Sprint(label, k.alg), true)
			for e, cs := range got {
				if err := cs.Verify(verifier, &back, ext); err != nil {
					c.Fail("C01/countersign-wire", fmt.Sprintf("countersignature %d of %d carried in the COSE_Sign's unprotected bucket does not verify against the parsed parent: %v", e, len(got), err), rep)
					break
				}
				if e < len(list) && !bytes.Equal(cs.Signature, list[e].Signature) {
					c.Fail("C01/countersign-wire", fmt.Sprintf("countersignature %d of %d carried in the COSE_Sign's unprotected bucket comes back as another holder's", e, len(got)), rep)
					break
				}
			}
		}
	}
}

// ---------- C03 ----------

// refVerdictSign1: the verdict the property demands for a decodable COSE_Sign1, computed from the bytes
func refVerdictSign1(body *W, ext []byte, valg cose.Algorithm, pub crypto.PublicKey) (bool, string) {
	if body.Kids[2].isNull() {
		return false, "payload-missing"
	}
	wa, isInt, present := algInWire(body.Kids[0].Ser())
	switch {
	case present && !isInt:
		return false, "alg-not-int"
	case present && cose.Algorithm(wa) != valg:
		return false, "alg-mismatch"
	case !present && len(ext) == 0:
		return false, "alg-absent"
	}
	tbs := refArray(refTstr("Signature1"), refBstr(body.Kids[0].Str), refBstr(orEmpty(ext)), refBstr(body.Kids[2].Str))
	return refVerify(valg, pub, tbs, body.Kids[3].Str), "crypto"
}

func runC03(c *Collector, r *Rng, thorough bool) {
	c.Rule = "validly signed wire messages (Sign1 tagged/untagged, real keys) and every decodable mutant of them: bit flips, byte insert/delete/replace, truncation, structural edits (bucket moves, re-tag, field swaps, head-width respelling, signature transplant between messages/kinds, ECDSA halves stripped/padded/DER); the library verdict must equal prechecks AND stdlib-verify over the RFC Sig_structure of the received bytes; unprotected-only edits must not change the verdict; non-trivial = mutant still decodes; distinct by input bytes+verifier"
	keys := realKeySet(r)
	if !thorough {
		keys = []realKey{keys[0], keys[3], keys[4]}
	}
	n := 25
	if thorough {
		n = 250
	}
	for _, k := range keys {
		signer, verifier := k.signer(), k.verifier()
		other := keys[(indexOfKey(keys, k)+1)%len(keys)]
		for i := 0; i < n; i++ {
			ext := genGoExternal(r)
			tagged := r.Bool()
			h := genGoHeaders(r, BucketCfg{Max: 4, Csig: 1}, k.alg, true, false)
			m := &cose.Sign1Message{Headers: h, Payload: r.Bytes(1 + r.Intn(30))}
			if i%5 == 4 {
				m.Payload = []byte{} // present, zero octets
			}
			if err := m.Sign(r, ext, signer); err != nil {
				continue
			}
			var data []byte
			var err error
			kind := "DSign1"
			if tagged {
				data, err = m.MarshalCBOR()
			} else {
				kind = "DSign1U"
				data, err = (*cose.UntaggedSign1Message)(m).MarshalCBOR()
			}
			if err != nil {
				continue
			}
			base, perr := refParseFull(data)
			if perr != nil {
				c.Fail("C03/own-output-unparsable", "library output is not well-formed CBOR", map[string]any{"data": hx(data)})
				continue
			}
			check := func(class string, in []byte, vext []byte, vk realKey, vf cose.Verifier) {
				d := decodeCase(c, "decode/"+class, kind, in)
				if d.paniced {
					return
				}
				if d.err != nil {
					return
				}
				{ // the model's view of the same verification, with a recording verifier that accepts
					spy := &spyVerifier{alg: vk.alg}
					op, obs, _, _ := execVerify1(d.s1, vext, spy)
					addCase(c, "verify-model/"+class, op, obs, true)
				}
				var verr error
				if p, _ := protect(func() { verr = d.s1.Verify(vext, vf) }); p {
					c.Fail("C03/panic", "Verify panicked", map[string]any{"data": hx(in)})
					return
				}
				w, _ := refParseFull(in)
				body := w
				if kind == "DSign1" {
					body = w.Kids[0]
				}
				want, why := refVerdictSign1(body, vext, vk.alg, vk.pub)
				c.Eval("mutant/"+class+"/"+why, hx(in)+hx(vext)+vk.name, true)
				if (verr == nil) != want {
					c.Fail("C03/verdict", fmt.Sprintf("Verify returned %v but the reference verdict is %v (%s)", verr, want, why), map[string]any{"kind": kind, "data": hx(in), "ext": hx(vext), "alg": vk.alg.String(), "class": class})
				}
				if verr != nil && why == "crypto" && !errors.Is(verr, cose.ErrVerification) {
					c.Fail("C03/errclass", "invalid signature reported with an error other than ErrVerification: "+verr.Error(), map[string]any{"kind": kind, "data": hx(in)})
				}
			}
			body := func(t *W) *W {
				if tagged {
					return t.Kids[0]
				}
				return t
			}
			check("unchanged", data, ext, k, verifier)
			// no alg in the protected bucket (legal with external data): what the unprotected bucket says about alg,
			// or about anything else, does not enter the verdict
			if i < 3 {
				for _, pcontent := range [][]byte{nil, wMap(-1, wInt(4, -1), wBstr([]byte("kid"), -1)).Ser()} {
					for _, vext := range [][]byte{[]byte("aad"), nil} {
						pl := r.Bytes(1 + r.Intn(20))
						sigv := refSign(r, k, refArray(refTstr("Signature1"), refBstr(pcontent), refBstr(orEmpty(vext)), refBstr(pl)))
						for _, ua := range []*W{nil, wInt(int64(k.alg), -1), wInt(int64(other.alg), -1), wTstr("foo", -1), wInt(0, -1), wBstr([]byte{1}, -1)} {
							um := wMap(-1)
							if ua != nil {
								um = wMap(-1, wInt(1, -1), ua)
							}
							t := wArr(-1, wBstr(pcontent, -1), um, wBstr(pl, -1), wBstr(sigv, -1))
							if tagged {
								t = wTag(18, -1, t)
							}
							check("no-protected-alg/unprotected-alg", t.Ser(), vext, k, verifier)
						}
					}
				}
			}
			check("other-key", data, ext, other, other.verifier())
			if len(ext) > 0 {
				check("other-external", data, append(append([]byte{}, ext...), 1), k, verifier)
			} else {
				check("external-added", data, []byte{0}, k, verifier)
				check("external-nil-vs-empty", data, []byte{}, k, verifier)
			}
			// byte-level mutants
			for j := 0; j < 6; j++ {
				b, desc := mutateBytes(r, data)
				check("byte/"+desc, b, ext, k, verifier)
			}
			// structural mutants
			for j := 0; j < 4; j++ {
				t := base.Clone()
				desc := mutateTree(r, &t)
				check("tree/"+desc, t.Ser(), ext, k, verifier)
			}
			if i%4 == 0 { // protected header of a boundary length, sent with a wider bstr head than needed
				for _, target := range []int{23, 24, 255, 256} {
					hb := cloneHeaders(h)
					if hb.Protected == nil {
						hb.Protected = cose.ProtectedHeader{cose.HeaderLabelAlgorithm: k.alg}
					}
					mb := &cose.Sign1Message{Headers: hb, Payload: []byte("boundary")}
					delete(mb.Headers.Protected, int64(4))
					mb.Headers.RawUnprotected = nil
					// pad with a kid so that the encoded map has exactly target bytes
					enc0, err := cose.ProtectedHeader(mb.Headers.Protected).MarshalCBOR()
					if err != nil {
						break
					}
					w0, _ := refParseFull(enc0)
					pw := wBstr(w0.Str, -1)
					if !padProtectedTo(pw, target) {
						continue
					}
					mb.Headers.RawProtected = pw.Ser()
					mb.Headers.Protected = nil
					if err := mb.Sign(r, ext, signer); err != nil {
						continue
					}
					var bb []byte
					if tagged {
						bb, err = mb.MarshalCBOR()
					} else {
						bb, err = (*cose.UntaggedSign1Message)(mb).MarshalCBOR()
					}
					if err != nil {
						continue
					}
					tb, perr := refParseFull(bb)
					if perr != nil {
						continue
					}
					for _, wd := range widthsFor(uint64(target)) {
						t2 := tb.Clone()
						body(t2).Kids[0].Width = wd
						check(fmt.Sprintf("protected-len-%d-head-width-%d", target, wd), t2.Ser(), ext, k, verifier)
					}
				}
			}
			if rk, ok := k.priv.(*rsa.PrivateKey); ok {
				// RSASSA-PSS signatures over the right structure but with a salt length other than the hash
				// length (RFC 8230 section 2 fixes it): not valid signatures for PS256/384/512
				bd := body(base)
				tbs := refArray(refTstr("Signature1"), refBstr(bd.Kids[0].Str), refBstr(orEmpty(ext)), refBstr(bd.Kids[2].Str))
				for _, salt := range []int{0, 7, rsa.PSSSaltLengthAuto} {
					if sg, err := rsa.SignPSS(r, rk, algHash(k.alg), digestOf(algHash(k.alg), tbs), &rsa.PSSOptions{SaltLength: salt}); err == nil {
						t := base.Clone()
						body(t).Kids[3] = wBstr(sg, -1)
						check(fmt.Sprintf("pss-salt-length-%d", salt), t.Ser(), ext, k, verifier)
					}
				}
			}
			{ // head widths of payload / signature / protected: verdict must stay valid
				t := base.Clone()
				t.RandWidths(r, 1, 1, isEnvelopeHead(kind, t))
				check("respell-widths", t.Ser(), ext, k, verifier)
			}
			{ // unprotected-only edit
				t := base.Clone()
				u := body(t).Kids[1]
				u.Kids = append(u.Kids, wInt(int64(900+r.Intn(50)), -1), wTstr("x", -1))
				u.Width = pickW(uint64(len(u.Kids)/2), -1)
				check("unprotected-add", t.Ser(), ext, k, verifier)
			}
			{ // move alg to the unprotected bucket
				t := base.Clone()
				p := body(t).Kids[0]
				if pm, err := refParseFull(p.Str); err == nil && pm.Maj == 5 {
					var keep []*W
					var moved []*W
					for q := 0; q+1 < len(pm.Kids); q += 2 {
						if pm.Kids[q].Maj == 0 && pm.Kids[q].Val == 1 {
							moved = append(moved, pm.Kids[q], pm.Kids[q+1])
						} else {
							keep = append(keep, pm.Kids[q], pm.Kids[q+1])
						}
					}
					np := wMap(-1, keep...)
					p.Str = np.Ser()
					p.Width = pickW(uint64(len(p.Str)), -1)
					u := body(t).Kids[1]
					u.Kids = append(u.Kids, moved...)
					u.Width = pickW(uint64(len(u.Kids)/2), -1)
					check("alg-moved-to-unprotected", t.Ser(), ext, k, verifier)
				}
			}
			{ // re-encode the protected map non-canonically (content bytes change)
				t := base.Clone()
				p := body(t).Kids[0]
				if pm, err := refParseFull(p.Str); err == nil && pm.Maj == 5 && len(pm.Kids) > 0 {
					pm.RandWidths(r, 1, 1, nil)
					pm.ShuffleMaps(r)
					p.Str = pm.Ser()
					p.Width = pickW(uint64(len(p.Str)), -1)
					check("protected-reencoded", t.Ser(), ext, k, verifier)
				}
			}
			{ // signature variants
				t := base.Clone()
				sg := body(t).Kids[3]
				orig := append([]byte{}, sg.Str...)
				variants := map[string][]byte{
					"sig-extra-leading-zero": append([]byte{0}, orig...),
					"sig-trailing-zero":      append(append([]byte{}, orig...), 0),
					"sig-truncated":          orig[:len(orig)-1],
				}
				if _, isEC := k.pub.(*ecdsa.PublicKey); isEC {
					half := len(orig) / 2
					variants["sig-der"] = derRS(new(big.Int).SetBytes(orig[:half]), new(big.Int).SetBytes(orig[half:]))
					variants["sig-halves-swapped"] = append(append([]byte{}, orig[half:]...), orig[:half]...)
					// the same integers r and s in another form: both halves padded / stripped alike
					variants["sig-both-halves-padded-1"] = append(append(append([]byte{0}, orig[:half]...), 0), orig[half:]...)
					variants["sig-both-halves-padded-2"] = append(append(append([]byte{0, 0}, orig[:half]...), 0, 0), orig[half:]...)
					if orig[0] == 0 && orig[half] == 0 {
						variants["sig-both-halves-stripped"] = append(append([]byte{}, orig[1:half]...), orig[half+1:]...)
					}
				}
				for name, v := range variants {
					sg.Str = v
					sg.Width = pickW(uint64(len(v)), -1)
					check(name, t.Ser(), ext, k, verifier)
				}
			}
			{ // transplant the signature onto another message / change the structure kind
				m2 := &cose.Sign1Message{Headers: cose.Headers{Protected: cose.ProtectedHeader{cose.HeaderLabelAlgorithm: k.alg}}, Payload: []byte("other payload")}
				if err := m2.Sign(r, ext, signer); err == nil {
					t := base.Clone()
					body(t).Kids[3] = wBstr(m2.Signature, -1)
					check("signature-transplanted", t.Ser(), ext, k, verifier)
				}
				// the same bytes signed as a COSE_Signature / countersignature must not verify as Sign1
				bp := body(base).Kids[0]
				tbsN := refArray(refTstr("Signature"), []byte{0x40}, refBstr(bp.Str), refBstr(orEmpty(ext)), refBstr(body(base).Kids[2].Str))
				t := base.Clone()
				body(t).Kids[3] = wBstr(refSign(r, k, tbsN), -1)
				check("signed-as-other-kind", t.Ser(), ext, k, verifier)
			}
			if tagged { // re-tag
				t := base.Clone()
				check("untag", t.Kids[0].Ser(), ext, k, verifier)
			}
		}
	}
	c03Others(c, r, keys, thorough)
	c03AllKeys(c, r)
}

func indexOfKey(keys []realKey, k realKey) int {
	for i := range keys {
		if keys[i].alg == k.alg {
			return i
		}
	}
	return 0
}

// ---------- C07 ----------

func runC07(c *Collector, r *Rng, thorough bool) {
	c.Rule = "the wire-tree generator acts as an independent encoder of conforming COSE_Sign1 / COSE_Sign / COSE_Signature (random per-item head widths, per-map key order, h'' or h'a0' for empty protected, nested countersignatures single/list); the harness signs the RFC structures over the wire bytes with the stdlib and patches the signatures in; Unmarshal and Verify must both return nil, nested countersignatures must verify against the decoded parent; model and implementation must agree on every tree; non-trivial = a signature was checked; distinct by input bytes"
	keys := realKeySet(r)
	n := 40
	if thorough {
		n = 2500
	}
	cfg := GenCfg{MaxEntries: 6, ValDepth: 3, Csig: 0, Tags: true, Floats: true, NoAlg: true}
	// deterministic part: registered parameters the RFC 9052 section 3.1 rules do not govern (CWT claims with every
	// legal claim shape - NumericDates as integers and as floats of each width, x5chain / x5bag as one certificate or
	// several, x5t, x5u, kcwt / kccs style maps), in the protected and in the unprotected bucket: conforming, accepted
	for ki, k := range []realKey{keys[0], keys[3]} {
		claimSets := []*W{
			wMap(-1, wInt(1, -1), wTstr("issuer", -1), wInt(2, -1), wTstr("subject", -1), wInt(3, -1), wTstr("audience", -1), wInt(4, -1), wInt(1700000000, -1), wInt(5, -1), wInt(1600000000, -1), wInt(6, -1), wInt(1650000000, -1), wInt(7, -1), wBstr([]byte{1, 2}, -1)),
			wMap(-1, wInt(4, -1), wFloat64(1700000000.5), wInt(5, -1), wFloat32(1.5e9), wInt(6, -1), wFloat16bits(0x7bff)),
			wMap(-1, wInt(4, -1), wInt(-1, -1), wInt(6, -1), wFloat64(-0.5)),
			wMap(-1, wInt(8, -1), wMap(-1, wInt(1, -1), wMap(-1, wInt(1, -1), wInt(2, -1)))),
			wMap(-1, wTstr("private claim", -1), wArr(-1, wInt(1, -1), wNull()), wInt(-70000, -1), wBool(true)),
			wMap(-1),
		}
		var params [][2]*W
		for _, cs := range claimSets {
			params = append(params, [2]*W{wInt(15, -1), cs})
		}
		params = append(params,
			[2]*W{wInt(33, -1), wBstr([]byte{0x30, 0x03, 1, 2, 3}, -1)},
			[2]*W{wInt(33, -1), wArr(-1, wBstr([]byte{0x30, 1}, -1), wBstr([]byte{0x30, 2}, -1))},
			[2]*W{wInt(32, -1), wArr(-1, wBstr([]byte{0x30, 1}, -1))},
			[2]*W{wInt(34, -1), wArr(-1, wInt(-16, -1), wBstr(make([]byte, 32), -1))},
			[2]*W{wInt(35, -1), wTstr("https://example.org/cert", -1)},
			[2]*W{wInt(13, -1), wMap(-1, wInt(8, -1), wMap(-1, wInt(1, -1), wMap(-1, wInt(1, -1), wInt(1, -1))))},
			[2]*W{wInt(14, -1), wMap(-1, wInt(1, -1), wTstr("iss", -1))},
			[2]*W{wInt(8, -1), wMap(-1, wInt(1, -1), wInt(2, -1))},
			[2]*W{wInt(10, -1), wBstr([]byte{1}, -1)},
			// values that Go sees as nil, false, zero or empty: present all the same
			[2]*W{wInt(-70001, -1), wNull()}, [2]*W{wInt(-70001, -1), wUndef()}, [2]*W{wInt(-70001, -1), wBool(false)}, [2]*W{wInt(-70001, -1), wInt(0, -1)},
			[2]*W{wInt(-70001, -1), wBstr(nil, -1)}, [2]*W{wInt(-70001, -1), wTstr("", -1)}, [2]*W{wInt(-70001, -1), wArr(-1)}, [2]*W{wInt(-70001, -1), wMap(-1)},
			[2]*W{wTstr("ext", -1), wNull()}, [2]*W{wInt(10, -1), wNull()},
		)
		ext := []byte("e")
		pl := []byte("payload")
		for pi, prm := range params {
			for _, inProtected := range []bool{true, false} {
				pkv := []*W{wInt(1, -1), wInt(int64(k.alg), -1)}
				ukv := []*W{}
				if inProtected {
					pkv = append(pkv, prm[0].Clone(), prm[1].Clone())
					if !(prm[0].Maj == 0 && prm[0].Val < 17) { // not a parameter the base rules already know: mark it critical
						pkv = append(pkv, wInt(2, -1), wArr(-1, prm[0].Clone()))
					}
				} else {
					ukv = append(ukv, prm[0].Clone(), prm[1].Clone())
				}
				content := wMap(-1, pkv...).Ser()
				sig := refSign(r, k, refArray(refTstr("Signature1"), refBstr(content), refBstr(ext), refBstr(pl)))
				data := wTag(18, -1, wArr(-1, wBstr(content, -1), wMap(-1, ukv...), wBstr(pl, -1), wBstr(sig, -1))).Ser()
				rep := map[string]any{"alg": k.alg.String(), "data": hx(data), "parameter": hx(prm[0].Ser()) + " " + hx(prm[1].Ser())}
				d := decodeCase(c, "conforming/ungoverned-parameters/DSign1", "DSign1", data)
				if d.paniced {
					continue
				}
				c.Eval("ungoverned-parameters/sign1", fmt.Sprint(ki, pi, inProtected), true)
				if d.err != nil {
					c.Fail("C07/rejected", "conforming message refused: "+d.err.Error(), rep)
				} else if err := d.s1.Verify(ext, k.verifier()); err != nil {
					c.Fail("C07/verify", "message signed by an independent implementation over its wire bytes does not verify: "+err.Error(), rep)
				}
				ssig := refSign(r, k, refArray(refTstr("Signature"), refBstr(content), refBstr(content), refBstr(ext), refBstr(pl)))
				mdata := wTag(98, -1, wArr(-1, wBstr(content, -1), wMap(-1, ukv...), wBstr(pl, -1), wArr(-1, wArr(-1, wBstr(content, -1), wMap(-1, ukv...), wBstr(ssig, -1))))).Ser()
				dm := decodeCase(c, "conforming/ungoverned-parameters/DSignMsg", "DSignMsg", mdata)
				if dm.paniced {
					continue
				}
				rep2 := map[string]any{"alg": k.alg.String(), "data": hx(mdata)}
				if dm.err != nil {
					c.Fail("C07/rejected", "conforming COSE_Sign refused: "+dm.err.Error(), rep2)
				} else if err := dm.sm.Verify(ext, k.verifier()); err != nil {
					c.Fail("C07/verify", "COSE_Sign signed by an independent implementation does not verify: "+err.Error(), rep2)
				}
			}
		}
	}
	// deterministic part: pairs of labels that are different labels although a careless comparison would merge them - n and
	// -1-n (the same argument under the two integer major types), an integer and the text of its decimal spelling, a
	// text and the same text with other case - together in one bucket of a conforming message
	for _, k := range []realKey{keys[0]} {
		ext := []byte("e")
		pl := []byte("payload")
		pairs := [][2]*W{
			{wInt(4, -1), wInt(-5, -1)}, {wInt(10, -1), wInt(-11, -1)}, {wInt(0, -1), wInt(-1, -1)}, {wInt(23, -1), wInt(-24, -1)}, {wInt(24, -1), wInt(-25, -1)}, {wInt(255, -1), wInt(-256, -1)},
			{wInt(65535, -1), wInt(-65536, -1)}, {wInt(4, -1), wTstr("4", -1)}, {wInt(10, -1), wTstr("10", -1)}, {wInt(-70001, -1), wTstr("-70001", -1)}, {wInt(256, -1), wTstr("256", -1)},
			{wTstr("a", -1), wTstr("A", -1)}, {wTstr("4", -1), wTstr("04", -1)}, {wInt(10, -1), wInt(-70010, -1)},
		}
		for pi, pr := range pairs {
			for _, inProtected := range []bool{true, false} {
				val := func(l *W) *W { // kid (4) is governed: a byte string; everything else is free
					if l.Maj == 0 && l.Val == 4 {
						return wBstr([]byte("kid"), -1)
					}
					return wTstr("v", -1)
				}
				pkv := []*W{wInt(1, -1), wInt(int64(k.alg), -1)}
				ukv := []*W{}
				if inProtected {
					pkv = append(pkv, pr[0].Clone(), val(pr[0]), pr[1].Clone(), val(pr[1]))
				} else {
					ukv = append(ukv, pr[0].Clone(), val(pr[0]), pr[1].Clone(), val(pr[1]))
				}
				content := wMap(-1, pkv...).Ser()
				sig := refSign(r, k, refArray(refTstr("Signature1"), refBstr(content), refBstr(ext), refBstr(pl)))
				data := wTag(18, -1, wArr(-1, wBstr(content, -1), wMap(-1, ukv...), wBstr(pl, -1), wBstr(sig, -1))).Ser()
				d := decodeCase(c, "conforming/label-pairs/DSign1", "DSign1", data)
				c.Eval("label-pairs/sign1", fmt.Sprint(pi, inProtected), true)
				rep := map[string]any{"alg": k.alg.String(), "data": hx(data), "labels": hx(pr[0].Ser()) + " " + hx(pr[1].Ser())}
				if d.paniced {
					continue
				}
				if d.err != nil {
					c.Fail("C07/rejected", "conforming message (two different labels in one bucket) refused: "+d.err.Error(), rep)
				} else if err := d.s1.Verify(ext, k.verifier()); err != nil {
					c.Fail("C07/verify", "message signed by an independent implementation over its wire bytes does not verify: "+err.Error(), rep)
				}
			}
		}
	}
	// deterministic part: alg = int / tstr. A COSE_Sign whose body bucket names an algorithm as text (or as an integer no
	// key here has) while its signers name theirs; a COSE_Sign1 with a text alg that carries a countersignature: decoded,
	// the signer / the countersignature verified
	for _, k := range []realKey{keys[0], keys[3]} {
		ext := []byte("e")
		pl := []byte("payload")
		for bi, bodyAlg := range []*W{wTstr("X-composite", -1), wTstr("ES256", -1), wTstr("", -1), wInt(-65537, -1), wInt(-260, -1)} {
			bcontent := wMap(-1, wInt(1, -1), bodyAlg.Clone()).Ser()
			scontent := wMap(-1, wInt(1, -1), wInt(int64(k.alg), -1)).Ser()
			ssig := refSign(r, k, refArray(refTstr("Signature"), refBstr(bcontent), refBstr(scontent), refBstr(ext), refBstr(pl)))
			mdata := wTag(98, -1, wArr(-1, wBstr(bcontent, -1), wMap(-1), wBstr(pl, -1), wArr(-1, wArr(-1, wBstr(scontent, -1), wMap(-1), wBstr(ssig, -1))))).Ser()
			dm := decodeCase(c, "conforming/body-alg/DSignMsg", "DSignMsg", mdata)
			rep := map[string]any{"alg": k.alg.String(), "data": hx(mdata), "body_alg": hx(bodyAlg.Ser())}
			c.Eval("body-alg/signmsg", fmt.Sprint(k.name, bi), true)
			if !dm.paniced {
				if dm.err != nil {
					c.Fail("C07/rejected", "conforming COSE_Sign (body alg of its own) refused: "+dm.err.Error(), rep)
				} else if err := dm.sm.Verify(ext, k.verifier()); err != nil {
					c.Fail("C07/verify", "COSE_Sign (body alg of its own) signed by an independent implementation does not verify: "+err.Error(), rep)
				}
			}
			// a COSE_Sign1 under that alg (not verifiable with the keys at hand) carrying a countersignature that is
			psig := []byte{1, 2, 3}
			csig := refSign(r, k, refArray(refTstr("CounterSignatureV2"), refBstr(bcontent), refBstr(scontent), refBstr(ext), refBstr(pl), refArray(refBstr(psig))))
			sdata := wTag(18, -1, wArr(-1, wBstr(bcontent, -1), wMap(-1, wInt(11, -1), wArr(-1, wBstr(scontent, -1), wMap(-1), wBstr(csig, -1))), wBstr(pl, -1), wBstr(psig, -1))).Ser()
			d1 := decodeCase(c, "conforming/body-alg/DSign1", "DSign1", sdata)
			rep1 := map[string]any{"alg": k.alg.String(), "data": hx(sdata), "parent_alg": hx(bodyAlg.Ser())}
			if !d1.paniced {
				if d1.err != nil {
					c.Fail("C07/rejected", "conforming COSE_Sign1 (alg no key here has, countersigned) refused: "+d1.err.Error(), rep1)
				} else if cs, ok := d1.s1.Headers.Unprotected[int64(11)].(*cose.Countersignature); !ok {
					c.Fail("C07/countersig-shape", "the nested countersignature was not decoded as one", rep1)
				} else if err := cs.Verify(k.verifier(), d1.s1, ext); err != nil {
					c.Fail("C07/countersig-verify", "countersignature by an independent implementation does not verify against the decoded parent: "+err.Error(), rep1)
				}
			}
		}
	}
	// deterministic part: every spelling of the protected bucket's length prefix (all five head widths) around an
	// empty bucket, a serialized empty map, and a bucket with alg, in every layer, signed by the standard library over
	// the RFC structures of the bytes as sent
	for ki, k := range []realKey{keys[0], keys[3], keys[4]} {
		ext := []byte("external data")
		for _, content := range [][]byte{nil, {0xa0}, wMap(-1, wInt(1, -1), wInt(int64(k.alg), -1)).Ser(), wMap(-1, wInt(4, -1), wBstr([]byte("kid"), -1), wInt(1, -1), wInt(int64(k.alg), 2)).Ser()} {
			for _, wd := range []int{0, 1, 2, 4, 8} {
				if wd < minWidth(uint64(len(content))) {
					continue
				}
				pb := &W{Maj: 2, Width: wd, Str: content}
				pl := []byte("payload")
				rep := map[string]any{"alg": k.alg.String(), "protected": hx(pb.Ser())}
				// COSE_Sign1 with a countersignature whose own protected bucket is spelled the same way
				sig := refSign(r, k, refArray(refTstr("Signature1"), refBstr(content), refBstr(ext), refBstr(pl)))
				csig := refSign(r, k, refArray(refTstr("CounterSignatureV2"), refBstr(content), refBstr(content), refBstr(ext), refBstr(pl), refArray(refBstr(sig))))
				um := wMap(-1, wInt(11, -1), wArr(-1, pb.Clone(), wMap(-1), wBstr(csig, -1)))
				data := wTag(18, -1, wArr(-1, pb.Clone(), um, wBstr(pl, -1), wBstr(sig, -1))).Ser()
				rep["data"] = hx(data)
				d := decodeCase(c, "conforming/prefix-widths/DSign1", "DSign1", data)
				if d.paniced {
					continue
				}
				c.Eval("prefix-widths/sign1", fmt.Sprint(ki, wd, len(content)), true)
				if d.err != nil {
					c.Fail("C07/rejected", "conforming message refused: "+d.err.Error(), rep)
					continue
				}
				if err := d.s1.Verify(ext, k.verifier()); err != nil {
					c.Fail("C07/verify", "message signed by an independent implementation over its wire bytes does not verify: "+err.Error(), rep)
				}
				if cs, ok := d.s1.Headers.Unprotected[int64(11)].(*cose.Countersignature); !ok {
					c.Fail("C07/countersig-shape", "the nested countersignature was not decoded as one", rep)
				} else if err := cs.Verify(k.verifier(), d.s1, ext); err != nil {
					c.Fail("C07/countersig-verify", "nested countersignature by an independent implementation does not verify against the decoded parent: "+err.Error(), rep)
				}
				// COSE_Sign: the same spelling for the body and for the signer
				ssig := refSign(r, k, refArray(refTstr("Signature"), refBstr(content), refBstr(content), refBstr(ext), refBstr(pl)))
				// ... and a countersignature over that signer (RFC 9338: the signer's protected bytes as sent, its
				// signature as the payload), itself countersigned once more
				cs1 := refSign(r, k, refArray(refTstr("CounterSignature"), refBstr(content), refBstr(content), refBstr(ext), refBstr(ssig)))
				cs2 := refSign(r, k, refArray(refTstr("CounterSignature"), refBstr(content), refBstr(content), refBstr(ext), refBstr(cs1)))
				csOnSigner := wArr(-1, pb.Clone(), wMap(-1, wInt(11, -1), wArr(-1, pb.Clone(), wMap(-1), wBstr(cs2, -1))), wBstr(cs1, -1))
				mdata := wTag(98, -1, wArr(-1, pb.Clone(), wMap(-1), wBstr(pl, -1), wArr(-1, wArr(-1, pb.Clone(), wMap(-1, wInt(11, -1), csOnSigner), wBstr(ssig, -1))))).Ser()
				dm := decodeCase(c, "conforming/prefix-widths/DSignMsg", "DSignMsg", mdata)
				if dm.paniced {
					continue
				}
				rep2 := map[string]any{"alg": k.alg.String(), "data": hx(mdata)}
				if dm.err != nil {
					c.Fail("C07/rejected", "conforming COSE_Sign refused: "+dm.err.Error(), rep2)
				} else if err := dm.sm.Verify(ext, k.verifier()); err != nil {
					c.Fail("C07/verify", "COSE_Sign signed by an independent implementation does not verify: "+err.Error(), rep2)
				} else if csd, ok := dm.sm.Signatures[0].Headers.Unprotected[int64(11)].(*cose.Countersignature); !ok {
					c.Fail("C07/countersig-shape", "the countersignature on the signer was not decoded as one", rep2)
				} else {
					if err := csd.Verify(k.verifier(), dm.sm.Signatures[0], ext); err != nil {
						c.Fail("C07/countersig-verify", "a countersignature over a COSE_Signature by an independent implementation does not verify against the decoded signer: "+err.Error(), rep2)
					}
					if inner, ok := csd.Headers.Unprotected[int64(11)].(*cose.Countersignature); !ok {
						c.Fail("C07/countersig-shape", "the countersignature on the countersignature was not decoded as one", rep2)
					} else if err := inner.Verify(k.verifier(), csd, ext); err != nil {
						c.Fail("C07/countersig-verify", "a countersignature over a countersignature by an independent implementation does not verify against the decoded one: "+err.Error(), rep2)
					}
				}
				// the protected bytes were seen before (by this very decoder): decoding them again gives every message
				// its own header maps - an edit of one decoded message leaves the next one decoded alone
				if dm.err == nil {
					d2 := decodeKind("DSign1", data)
					if d2.err == nil && d2.s1 != nil && d2.s1.Headers.Protected != nil {
						d2.s1.Headers.Protected[cose.HeaderLabelAlgorithm] = cose.Algorithm(-65000)
						d2.s1.Headers.Protected[int64(-70040)] = "edited by the application"
					}
					d3 := decodeKind("DSign1", data)
					if d3.err != nil {
						c.Fail("C07/rejected", "a conforming message is refused the third time it is decoded: "+d3.err.Error(), rep)
					} else if err := d3.s1.Verify(ext, k.verifier()); err != nil {
						c.Fail("C07/verify", "a conforming message decoded after the application had edited another decoded copy of it does not verify: "+err.Error(), rep)
					}
				}
			}
		}
	}
	for i := 0; i < n; i++ {
		k := pick(r, keys)
		ext := genGoExternal(r)
		haveAlg := r.Chance(2, 3) || len(ext) == 0
		// ---- COSE_Sign1 (tagged / untagged) ----
		tagged := r.Bool()
		p, u := genHeadersTree(r, cfg, int64(k.alg), haveAlg)
		payload := wBstr(r.Bytes(pick(r, []int{0, 1, 23, 24, 255, 256, 40})), -1)
		body := wArr(-1, p, u, payload, wBstr([]byte{0}, -1))
		// a nested countersignature over the not-yet-final parent is added after the parent signature exists
		t := body
		kind := "DSign1U"
		if tagged {
			t = wTag(18, -1, body)
			kind = "DSign1"
		}
		t.RandWidths(r, 1, 2, isEnvelopeHead(kind, t))
		t.ShuffleMaps(r)
		if i%5 == 0 {
			padProtectedTo(p, pick(r, []int{23, 24, 255, 256}))
		}
		// protected content is a bstr: re-spell the inner map too
		if pm, err := refParseFull(p.Str); err == nil && len(p.Str) > 0 {
			pm.RandWidths(r, 1, 2, nil)
			pm.ShuffleMaps(r)
			p.Str = pm.Ser()
			p.Width = pick(r, widthsFor(uint64(len(p.Str))))
		}
		tbs := refArray(refTstr("Signature1"), refBstr(p.Str), refBstr(orEmpty(ext)), refBstr(payload.Str))
		sig := refSign(r, k, tbs)
		body.Kids[3] = &W{Maj: 2, Width: pick(r, widthsFor(uint64(len(sig)))), Str: sig}
		// countersignature (single or list) by the independent implementation, relative to this parent
		csKey := pick(r, keys)
		ncs := r.Intn(5)
		var csItems []*W
		for j := 0; j < ncs; j++ {
			cp, cu := genHeadersTree(r, GenCfg{MaxEntries: 2, ValDepth: 1, Tags: true, NoAlg: true}, int64(csKey.alg), true)
			ctbs := refArray(refTstr("CounterSignatureV2"), refBstr(p.Str), refBstr(cp.Str), refBstr(orEmpty(ext)), refBstr(payload.Str), refArray(refBstr(sig)))
			item := wArr(-1, cp, cu, wBstr(refSign(r, csKey, ctbs), -1))
			// the countersigner is another implementation too: its protected map and every length prefix in any spelling
			if pm, err := refParseFull(cp.Str); err == nil && len(cp.Str) > 0 && j%2 == 0 {
				pm.RandWidths(r, 1, 2, nil)
				pm.ShuffleMaps(r)
				cp.Str = pm.Ser()
				ctbs = refArray(refTstr("CounterSignatureV2"), refBstr(p.Str), refBstr(cp.Str), refBstr(orEmpty(ext)), refBstr(payload.Str), refArray(refBstr(sig)))
				item.Kids[2] = wBstr(refSign(r, csKey, ctbs), -1)
			}
			cp.Width = pick(r, widthsFor(uint64(len(cp.Str))))
			item.Kids[2].Width = pick(r, widthsFor(uint64(len(item.Kids[2].Str))))
			csItems = append(csItems, item)
		}
		// a deeply nested extension parameter and a chain of nested countersignatures (each countersigned in turn; the
		// inner ones are carried, not verified here): conforming input at any depth the CBOR decoder's default admits
		if i%4 == 1 {
			deep := wArr(-1, wInt(1, -1))
			for dd := pick(r, []int{3, 6, 7, 9, 14, 20}); dd > 0; dd-- {
				if dd%2 == 0 {
					deep = wArr(-1, deep)
				} else {
					deep = wMap(-1, wInt(int64(dd), -1), deep)
				}
			}
			u.Kids = append(u.Kids, wInt(-700001, -1), deep)
		}
		if i%4 == 3 && ncs > 0 {
			inner := wArr(-1, wBstr(wMap(-1, wInt(1, -1), wInt(-7, -1)).Ser(), -1), wMap(-1), wBstr([]byte{1, 2, 3}, -1))
			for dd := pick(r, []int{1, 2, 3, 4, 6}); dd > 0; dd-- {
				val := inner
				if dd%2 == 0 {
					val = wArr(-1, inner) // a list of one
				}
				inner = wArr(-1, wBstr(wMap(-1, wInt(1, -1), wInt(-7, -1)).Ser(), -1), wMap(-1, wInt(11, -1), val), wBstr([]byte{4, 5, 6}, -1))
			}
			last := csItems[len(csItems)-1]
			last.Kids[1].Kids = append(last.Kids[1].Kids, wInt(11, -1), inner)
			last.Kids[1].Width = pick(r, widthsFor(uint64(len(last.Kids[1].Kids)/2)))
		}
		if ncs == 1 && r.Bool() {
			u.Kids = append(u.Kids, wInt(int64(2000), -1), wNull())
			u.Kids[len(u.Kids)-2] = wInt(11, -1)
			u.Kids[len(u.Kids)-1] = csItems[0]
		} else if ncs > 0 {
			u.Kids = append(u.Kids, wInt(11, -1), wArr(-1, csItems...))
		}
		// labels 7/11 may already exist from the generator (Csig: 0 prevents it)
		u.Width = pick(r, widthsFor(uint64(len(u.Kids)/2)))
		data := t.Ser()
		d := decodeCase(c, "conforming/"+kind, kind, data)
		rep := map[string]any{"kind": kind, "data": hx(data), "ext": hx(ext), "alg": k.alg.String()}
		if d.paniced {
			continue
		}
		if d.err != nil {
			c.Fail("C07/rejected", "conforming message refused: "+d.err.Error(), rep)
			continue
		}
		if err := d.s1.Verify(ext, k.verifier()); err != nil {
			c.Fail("C07/verify", "message signed by an independent implementation over its wire bytes does not verify: "+err.Error(), rep)
		}
		if ncs > 0 {
			var list []*cose.Countersignature
			switch v := d.s1.Headers.Unprotected[int64(11)].(type) {
			case *cose.Countersignature:
				list = []*cose.Countersignature{v}
			case []*cose.Countersignature:
				list = v
			}
			if len(list) != ncs {
				c.Fail("C07/countersig-shape", fmt.Sprintf("expected %d nested countersignatures, decoded %d", ncs, len(list)), rep)
			}
			for _, cs := range list {
				if err := cs.Verify(csKey.verifier(), d.s1, ext); err != nil {
					c.Fail("C07/countersig-verify", "nested countersignature by an independent implementation does not verify against the decoded parent: "+err.Error(), rep)
				}
			}
		}
		// fields decoded as sent
		if !bytes.Equal(d.s1.Payload, payload.Str) || !bytes.Equal(d.s1.Signature, sig) {
			c.Fail("C07/fields", "decoded payload/signature differ from what was sent", rep)
		}

		// ---- COSE_Sign ----
		if i%2 == 0 {
			bp, bu := genHeadersTree(r, cfg, 0, false)
			pl := wBstr(r.Bytes(1+r.Intn(30)), -1)
			ns := 1 + r.Intn(3)
			var sigTrees []*W
			var ks []realKey
			for j := 0; j < ns; j++ {
				kj := pick(r, keys)
				sp, su := genHeadersTree(r, GenCfg{MaxEntries: 3, ValDepth: 1, Tags: true, NoAlg: true}, int64(kj.alg), haveAlg)
				tbs := refArray(refTstr("Signature"), refBstr(bp.Str), refBstr(sp.Str), refBstr(orEmpty(ext)), refBstr(pl.Str))
				sigTrees = append(sigTrees, wArr(-1, sp, su, wBstr(refSign(r, kj, tbs), -1)))
				ks = append(ks, kj)
			}
			t := wTag(98, -1, wArr(-1, bp, bu, pl, wArr(-1, sigTrees...)))
			t.RandWidths(r, 1, 2, isEnvelopeHead("DSignMsg", t))
			// note: widths of protected bstrs may be re-spelled after signing: only the content is signed
			data := t.Ser()
			d := decodeCase(c, "conforming/DSignMsg", "DSignMsg", data)
			rep := map[string]any{"kind": "DSignMsg", "data": hx(data), "ext": hx(ext)}
			if d.paniced {
				continue
			}
			if d.err != nil {
				c.Fail("C07/rejected", "conforming COSE_Sign refused: "+d.err.Error(), rep)
				continue
			}
			var vfs []cose.Verifier
			for _, kj := range ks {
				vfs = append(vfs, kj.verifier())
			}
			if err := d.sm.Verify(ext, vfs...); err != nil {
				c.Fail("C07/verify", "COSE_Sign signed by an independent implementation does not verify: "+err.Error(), rep)
			}
		}
	}
}

// c03AllKeys: every key of the key set (all RSA modulus sizes included: 2048, 2051, 3072 bits), messages signed by the
// standard library over the RFC structure: accepted; with one bit of the signature flipped: refused. Then one verifier
// of each algorithm shared by 32 goroutines verifying valid messages at once: each verdict is the sequential one.
func c03AllKeys(c *Collector, r *Rng) {
	c03MalformedKeys(c, r)
	c03AlgRemovedAfterSigning(c, r)
	keys := append([]realKey{}, realKeySet(r)...)
	// ECDSA keys under the other ES algorithms as well (the library lets any curve sign under any of them: the digest
	// may be longer or shorter than the curve order)
	for _, k := range realKeySet(r) {
		if _, ok := k.priv.(*ecdsa.PrivateKey); ok {
			for _, a := range []cose.Algorithm{cose.AlgorithmES256, cose.AlgorithmES384, cose.AlgorithmES512} {
				if a != k.alg {
					if _, err := cose.NewVerifier(a, k.pub); err == nil {
						keys = append(keys, realKey{a, k.name + "-under-" + a.String(), k.priv, k.pub})
					}
				}
			}
		}
	}
	for _, k := range keys {
		vf := k.verifier()
		type vm struct {
			m   *cose.Sign1Message
			ext []byte
		}
		var valid []vm
		for i := 0; i < 6; i++ {
			ext := pick(r, [][]byte{nil, {}, []byte("external")})
			pcontent := wMap(-1, wInt(1, -1), wInt(int64(k.alg), -1)).Ser()
			pl := r.Bytes(r.Intn(40))
			sig := refSign(r, k, refArray(refTstr("Signature1"), refBstr(pcontent), refBstr(orEmpty(ext)), refBstr(pl)))
			data := wTag(18, -1, wArr(-1, wBstr(pcontent, -1), wMap(-1), wBstr(pl, -1), wBstr(sig, -1))).Ser()
			var m cose.Sign1Message
			rep := map[string]any{"key": k.name, "alg": k.alg.String(), "data": hx(data), "ext": hx(ext)}
			if err := m.UnmarshalCBOR(data); err != nil {
				c.Fail("C03/verdict", "a message signed by the standard library over the RFC structure is not decodable: "+err.Error(), rep)
				continue
			}
			c.Eval("all-keys/"+k.name+"/"+k.alg.String(), hx(data), true)
			if err := m.Verify(ext, vf); err != nil {
				c.Fail("C03/verdict", fmt.Sprintf("Verify returned %v for a signature valid over the received bytes (key %s)", err, k.name), rep)
				continue
			}
			valid = append(valid, vm{&m, ext})
			bad := m
			bad.Signature = append([]byte{}, m.Signature...)
			bad.Signature[r.Intn(len(bad.Signature))] ^= 1 << uint(r.Intn(8))
			if err := bad.Verify(ext, vf); err == nil {
				c.Fail("C03/verdict", "Verify returned nil for a signature with one bit flipped", rep)
			}
			// for ECDSA, every single bit of one signature flipped in turn
			if _, ok := k.priv.(*ecdsa.PrivateKey); ok && i == 0 {
				for bit := 0; bit < 8*len(m.Signature); bit++ {
					fl := m
					fl.Signature = append([]byte{}, m.Signature...)
					fl.Signature[bit/8] ^= 0x80 >> uint(bit%8)
					if fl.Verify(ext, vf) == nil && !refVerify(k.alg, k.pub, refArray(refTstr("Signature1"), refBstr(pcontent), refBstr(orEmpty(ext)), refBstr(pl)), fl.Signature) {
						c.Fail("C03/verdict", fmt.Sprintf("Verify returned nil for a signature with bit %d (octet %d) flipped; the standard library refuses it", bit, bit/8), map[string]any{"key": k.name, "alg": k.alg.String(), "data": hx(data), "flipped_bit": bit})
						break
					}
				}
				c.Eval("every-bit-flipped/"+k.name+"/"+k.alg.String(), hx(data), true)
			}
		}
		if len(valid) == 0 {
			continue
		}
		// one holder decoded twice: first a valid message, then the same message with its payload detached (nil on the
		// wire) - nothing is left to verify against, and nothing of the first message stands in
		{
			pcontent := wMap(-1, wInt(1, -1), wInt(int64(k.alg), -1)).Ser()
			pl := []byte("attached payload")
			sig := refSign(r, k, refArray(refTstr("Signature1"), refBstr(pcontent), refBstr(nil), refBstr(pl)))
			full := wTag(18, -1, wArr(-1, wBstr(pcontent, -1), wMap(-1), wBstr(pl, -1), wBstr(sig, -1))).Ser()
			detached := wTag(18, -1, wArr(-1, wBstr(pcontent, -1), wMap(-1), wNull(), wBstr(sig, -1))).Ser()
			for _, tagged := range []bool{true, false} {
				var holder cose.Sign1Message
				dec := holder.UnmarshalCBOR
				f, d := full, detached
				if !tagged {
					dec = (*cose.UntaggedSign1Message)(&holder).UnmarshalCBOR
					f, d = full[1:], detached[1:]
				}
				if dec(f) != nil || holder.Verify(nil, vf) != nil {
					continue
				}
				c.Eval("holder-reused-for-detached/"+k.name, fmt.Sprint(tagged), true)
				if err := dec(d); err != nil {
					continue
				}
				if err := holder.Verify(nil, vf); err == nil || holder.Payload != nil {
					c.Fail("C03/verdict", fmt.Sprintf("a message whose payload is nil on the wire, decoded into a variable that held the attached form before: Verify returned %v, the payload is %x", err, holder.Payload), map[string]any{"key": k.name, "alg": k.alg.String(), "data": hx(d)})
				}
			}
		}
		var wg sync.WaitGroup
		var mu sync.Mutex
		refused := 0
		for g := 0; g < 32; g++ {
			wg.Add(1)
			go func(g int) {
				defer wg.Done()
				for round := 0; round < 60; round++ {
					v := valid[(g+round)%len(valid)]
					var err error
					if p, _ := protect(func() { err = v.m.Verify(v.ext, vf) }); p || err != nil {
						mu.Lock()
						refused++
						mu.Unlock()
					}
				}
			}(g)
		}
		wg.Wait()
		c.Eval("shared-verifier/"+k.name+"/"+k.alg.String(), fmt.Sprint(len(valid)), true)
		if refused > 0 {
			c.Fail("C03/verdict-depends-on-concurrent-use", fmt.Sprintf("%d of 1920 verifications of valid messages were refused (or panicked) when 32 goroutines shared one %v verifier", refused, k.alg), map[string]any{"key": k.name, "alg": k.alg.String()})
		}
	}
}

// c01Shared: one Signer and one Verifier of each key shared by 16 goroutines that sign, serialise, parse back and verify
// messages with large payloads at the same time (a signing service does exactly this): every message signed must verify,
// with the shared verifier and with a verifier of its own.
func c01Shared(c *Collector, r *Rng, keys []realKey) {
	payloads := make([][]byte, 16)
	for i := range payloads {
		payloads[i] = r.Bytes(256 * 1024)
	}
	for _, k := range keys {
		signer, verifier := k.signer(), k.verifier()
		var wg sync.WaitGroup
		var mu sync.Mutex
		bad := map[string]int{}
		note := func(what string) { mu.Lock(); bad[what]++; mu.Unlock() }
		rounds := 6
		if _, isRSA := k.priv.(*rsa.PrivateKey); isRSA {
			rounds = 3
		}
		for g := 0; g < 16; g++ {
			wg.Add(1)
			go func(g int) {
				defer wg.Done()
				for round := 0; round < rounds; round++ {
					ext := []byte{byte(g), byte(round)}
					m := &cose.Sign1Message{Headers: cose.Headers{Protected: cose.ProtectedHeader{cose.HeaderLabelAlgorithm: k.alg}, Unprotected: cose.UnprotectedHeader{int64(4): []byte{byte(g)}}}, Payload: payloads[(g+round)%len(payloads)]}
					var err error
					if p, _ := protect(func() { err = m.Sign(crand.Reader, ext, signer) }); p || err != nil {
						note(fmt.Sprintf("Sign failed or panicked (%v)", err))
						continue
					}
					var b []byte
					if p, _ := protect(func() { b, err = m.MarshalCBOR() }); p || err != nil {
						note("MarshalCBOR failed")
						continue
					}
					var back cose.Sign1Message
					if p, _ := protect(func() { err = back.UnmarshalCBOR(b) }); p || err != nil {
						note("own output not decodable")
						continue
					}
					if p, _ := protect(func() { err = back.Verify(ext, verifier) }); p || err != nil {
						note("shared verifier refused (or panicked on) a message just signed")
					}
					own := k.verifier()
					if p, _ := protect(func() { err = back.Verify(ext, own) }); p || err != nil {
						note("a verifier of its own refused a message signed by the shared signer")
					}
				}
			}(g)
		}
		wg.Wait()
		c.Eval("shared-signer-verifier/"+k.name+"/"+k.alg.String(), fmt.Sprint(rounds), true)
		if len(bad) > 0 {
			c.Fail("C01/shared-key-concurrent", fmt.Sprintf("one %v signer and verifier shared by 16 goroutines (256 KiB payloads): %v", k.alg, bad), map[string]any{"key": k.name, "alg": k.alg.String()})
		}
	}
}

// c03MalformedKeys: public keys that are not keys (an Ed25519 key of the wrong length, an ECDSA point off the curve or
// at the origin, an RSA modulus of one, a nil coordinate): whatever NewVerifier and Verify do with them (refuse, fail,
// even panic), they never report a signature as valid - no signature is valid under a key that is not one.
func c03MalformedKeys(c *Collector, r *Rng) {
	var good ed25519.PublicKey
	var goodPriv ed25519.PrivateKey
	for _, k := range realKeySet(r) {
		if p, ok := k.pub.(ed25519.PublicKey); ok {
			good, goodPriv = p, k.priv.(ed25519.PrivateKey)
		}
	}
	type bk struct {
		name string
		alg  cose.Algorithm
		pub  crypto.PublicKey
	}
	var bad []bk
	for _, n := range []int{0, 1, 16, 31, 33, 48, 64} {
		kb := make([]byte, n)
		copy(kb, good)
		if n > len(good) {
			copy(kb[len(good):], good)
		}
		bad = append(bad, bk{fmt.Sprintf("ed25519-of-%d-octets", n), cose.AlgorithmEdDSA, ed25519.PublicKey(kb)})
	}
	bad = append(bad, bk{"ed25519-nil", cose.AlgorithmEdDSA, ed25519.PublicKey(nil)})
	for _, ci := range curves {
		prm := ci.curve.Params()
		bad = append(bad,
			bk{ci.name + "-origin", ci.alg, &ecdsa.PublicKey{Curve: ci.curve, X: big.NewInt(0), Y: big.NewInt(0)}},
			bk{ci.name + "-off-curve", ci.alg, &ecdsa.PublicKey{Curve: ci.curve, X: new(big.Int).Set(prm.Gx), Y: new(big.Int).Add(prm.Gy, big.NewInt(1))}},
			bk{ci.name + "-x-beyond-p", ci.alg, &ecdsa.PublicKey{Curve: ci.curve, X: new(big.Int).Add(prm.Gx, prm.P), Y: new(big.Int).Set(prm.Gy)}},
			bk{ci.name + "-nil-coordinates", ci.alg, &ecdsa.PublicKey{Curve: ci.curve}},
		)
	}
	_ = elliptic.P256
	for _, a := range []cose.Algorithm{cose.AlgorithmPS256, cose.AlgorithmPS384, cose.AlgorithmPS512} {
		bad = append(bad,
			bk{"rsa-modulus-1", a, &rsa.PublicKey{N: big.NewInt(1), E: 65537}},
			bk{"rsa-modulus-nil", a, &rsa.PublicKey{E: 65537}},
			bk{"rsa-exponent-1", a, &rsa.PublicKey{N: new(big.Int).Lsh(big.NewInt(1), 2047), E: 1}},
		)
	}
	pcontent := func(a cose.Algorithm) []byte { return wMap(-1, wInt(1, -1), wInt(int64(a), -1)).Ser() }
	for _, b := range bad {
		var vf cose.Verifier
		var nerr error
		if p, _ := protect(func() { vf, nerr = cose.NewVerifier(b.alg, b.pub) }); p || nerr != nil || vf == nil {
			c.Eval("malformed-key/refused/"+b.name, b.alg.String(), true)
			continue
		}
		pl := []byte("payload")
		tbs := refArray(refTstr("Signature1"), refBstr(pcontent(b.alg)), refBstr(nil), refBstr(pl))
		sigs := [][]byte{make([]byte, 64), bytes.Repeat([]byte{1}, 64), make([]byte, 96), make([]byte, 132), make([]byte, 256), bytes.Repeat([]byte{0, 1}, 128), {}, {1}}
		if goodPriv != nil {
			sigs = append(sigs, ed25519.Sign(goodPriv, tbs))
		}
		for si, sig := range sigs {
			m := &cose.Sign1Message{Headers: cose.Headers{RawProtected: refBstr(pcontent(b.alg)), Protected: cose.ProtectedHeader{cose.HeaderLabelAlgorithm: b.alg}}, Payload: pl, Signature: sig}
			var err error
			p, _ := protect(func() { err = m.Verify(nil, vf) })
			c.Eval("malformed-key/"+b.name, fmt.Sprint(si, b.alg), true)
			if !p && err == nil {
				c.Fail("C03/verdict", fmt.Sprintf("Verify returned nil under a public key that is not a key (%s): no signature is valid under it", b.name), map[string]any{"key": b.name, "alg": b.alg.String(), "signature": hx(sig)})
				break
			}
			var derr error
			p2, _ := protect(func() { derr = vf.Verify(tbs, sig) })
			if !p2 && derr == nil && len(sig) > 0 {
				c.Fail("C03/verdict", fmt.Sprintf("the built-in verifier returned nil under a public key that is not a key (%s)", b.name), map[string]any{"key": b.name, "alg": b.alg.String(), "signature": hx(sig)})
				break
			}
		}
	}
}

// c03AlgRemovedAfterSigning: a structure signed in the ordinary way (alg in its protected bucket, no external data),
// then the alg entry removed from the in-memory protected map (or the map replaced by an empty / nil one): the value now
// says nothing about its algorithm and its signature is not a signature over its Sig_structure (the protected bucket
// is another byte string) - Verify does not return nil, and leaves the header as it found it.
func c03AlgRemovedAfterSigning(c *Collector, r *Rng) {
	for _, k := range realKeySet(r) {
		signer, verifier := k.signer(), k.verifier()
		for _, how := range []string{"entry deleted", "empty map", "nil map"} {
			strip := func(h *cose.Headers) {
				switch how {
				case "entry deleted":
					delete(h.Protected, cose.HeaderLabelAlgorithm)
				case "empty map":
					h.Protected = cose.ProtectedHeader{}
				default:
					h.Protected = nil
				}
			}
			hdr := func() cose.Headers {
				return cose.Headers{Protected: cose.ProtectedHeader{cose.HeaderLabelAlgorithm: k.alg}, Unprotected: cose.UnprotectedHeader{}}
			}
			rep := map[string]any{"key": k.name, "alg": k.alg.String(), "how": how}
			check := func(name string, h *cose.Headers, verify func() error) {
				strip(h)
				before := cOptMap(map[any]any(h.Protected), h.Protected == nil)
				var err error
				p, _ := protect(func() { err = verify() })
				c.Eval("alg-removed-after-signing/"+name, k.name+how, true)
				if !p && err == nil {
					c.Fail("C03/verdict", fmt.Sprintf("%s: the alg entry was removed from the protected bucket after signing (no external data): Verify returned nil", name), rep)
				}
				if after := cOptMap(map[any]any(h.Protected), h.Protected == nil); after != before {
					c.Fail("C03/verdict", fmt.Sprintf("%s: Verify rewrote the protected bucket it was asked about: %s before, %s after", name, before, after), rep)
				}
			}
			m := &cose.Sign1Message{Headers: hdr(), Payload: []byte("p")}
			if m.Sign(r, nil, signer) == nil {
				check("COSE_Sign1", &m.Headers, func() error { return m.Verify(nil, verifier) })
			}
			mu := &cose.UntaggedSign1Message{Headers: hdr(), Payload: []byte("p")}
			if mu.Sign(r, nil, signer) == nil {
				check("COSE_Sign1 untagged", &mu.Headers, func() error { return mu.Verify([]byte{}, verifier) })
			}
			sm := &cose.SignMessage{Headers: cose.Headers{Protected: cose.ProtectedHeader{}}, Payload: []byte("p"), Signatures: []*cose.Signature{{Headers: hdr()}}}
			if sm.Sign(r, nil, signer) == nil {
				check("COSE_Signature", &sm.Signatures[0].Headers, func() error { return sm.Verify(nil, verifier) })
			}
			parent := &cose.Sign1Message{Headers: hdr(), Payload: []byte("p"), Signature: []byte{1, 2}}
			cs := &cose.Countersignature{Headers: hdr()}
			if cs.Sign(r, signer, parent, nil) == nil {
				check("COSE_Countersignature", &cs.Headers, func() error { return cs.Verify(verifier, parent, nil) })
			}
		}
	}
}
