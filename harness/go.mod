module verif/harness

go 1.21

require (
	github.com/fxamacker/cbor/v2 v2.5.0
	github.com/veraison/go-cose v0.0.0
)

require github.com/x448/float16 v0.8.4 // indirect

replace github.com/veraison/go-cose => /repo
