package main

import (
	"bytes"
	"crypto"
	"crypto/ecdsa"
	"crypto/ed25519"
	"crypto/elliptic"
	crand "crypto/rand"
	"crypto/rsa"
	"errors"
	"fmt"
	"io"
	"math/big"
	"runtime"
	"sync"

	cose "github.com/veraison/go-cose"
)

func init() {
	runners["C10"] = runC10
	runners["C11"] = runC11
	runners["C20"] = runC20
}

// ---------- C10 ----------

func genParents(r *Rng, signed bool) []any {
	cfg := BucketCfg{Max: 4, Csig: 0}
	sig := func() []byte {
		if signed {
			return genSigBytes(r)
		}
		// not signed: the field never set, or reset for signing again (empty, not nil)
		return pick(r, [][]byte{nil, nil, {}, make([]byte, 0, 16)})
	}
	s1 := &cose.Sign1Message{Headers: genGoHeaders(r, cfg, -7, true, r.Chance(1, 3)), Payload: genGoPayload(r), Signature: sig()}
	sm := &cose.SignMessage{Headers: genGoHeaders(r, cfg, 0, false, r.Chance(1, 3)), Payload: genGoPayload(r)}
	if signed {
		sm.Signatures = []*cose.Signature{{Headers: genGoHeaders(r, cfg, -7, true, false), Signature: genSigBytes(r)}}
	}
	sg := &cose.Signature{Headers: genGoHeaders(r, cfg, -35, true, r.Chance(1, 3)), Signature: sig()}
	cs := &cose.Countersignature{Headers: genGoHeaders(r, cfg, -8, true, r.Chance(1, 3)), Signature: sig()}
	return []any{s1, sm, sg, cs}
}

// decodedParents: parents decoded from wire trees with non-canonical protected bytes
func decodedParents(r *Rng) []any {
	var out []any
	for _, kind := range []string{"DSign1", "DSignMsg", "DSignature"} {
		t := genTreeOfKind(r, kind, GenCfg{MaxEntries: 4, ValDepth: 1, Csig: 0, Tags: true})
		t.RandWidths(r, 1, 2, isEnvelopeHead(kind, t))
		t.ShuffleMaps(r)
		d := decodeKind(kind, t.Ser())
		switch {
		case d.s1 != nil:
			out = append(out, d.s1)
		case d.sm != nil:
			out = append(out, d.sm)
		case d.sig != nil:
			out = append(out, d.sig)
			if r.Bool() {
				out = append(out, (*cose.Countersignature)(d.sig))
			}
		}
	}
	return out
}

func runC10(c *Collector, r *Rng, thorough bool) {
	c.Rule = "recorded to-be-signed bytes of Countersignature.Sign/Verify and Countersign0/VerifyCountersign0 for 4 parent kinds x pointer/value x full/abbreviated x constructed/decoded (non-canonical protected bytes, raw buckets) vs the harness's RFC 9338 encoder and vs the Coq model; unsigned / payload-less / foreign parents must be refused without invoking the key; with real keys every single-field change of the parent (protected bytes, payload, signature, external data), a swap of full/abbreviated form and a replay as message signature must stop verification, unprotected edits must not; non-trivial = key invoked; distinct by op term"
	n := 40
	if thorough {
		n = 2500
	}
	for i := 0; i < n; i++ {
		parents := genParents(r, true)
		parents = append(parents, decodedParents(r)...)
		ext := genGoExternal(r)
		for _, pv := range parents {
			for _, ptr := range []bool{true, false} {
				par := parentOf(pv, ptr)
				// full
				cs := &cose.Countersignature{Headers: genGoHeaders(r, BucketCfg{Max: 3}, -7, true, r.Chance(1, 4))}
				typedHolder := len(cs.Headers.RawProtected) == 0 && cs.Headers.Protected != nil
				sg := &spySigner{alg: -7, kind: SOk, sig: genSigBytes(r)}
				op, obs, err, p := execCsign(cs, sg, par, ext)
				if p {
					c.Fail("C10/panic", "Countersignature.Sign panicked", map[string]any{"op": trunc(op, 500)})
					continue
				}
				addCase(c, fmt.Sprintf("csign/%T", par.val), op, obs, len(sg.calls) > 0)
				if err == nil && len(sg.calls) == 1 {
					sp, _ := refProtectedBstr(&cs.Headers)
					want, rerr := refCountersign(false, par.val, sp, ext)
					if rerr != nil || !bytes.Equal(want, sg.calls[0]) {
						c.Fail("C10/structure", fmt.Sprintf("countersigner got %x, RFC 9338 structure is %x", sg.calls[0], want), map[string]any{"op": trunc(op, 700)})
					}
					// verify side sees the same bytes
					vf := &spyVerifier{alg: -7}
					op, obs, _, _ := execCverify(cs, vf, parentOf(pv, !ptr), ext)
					addCase(c, fmt.Sprintf("cverify/%T", par.val), op, obs, true)
					if len(vf.calls) != 1 || !bytes.Equal(vf.calls[0].content, sg.calls[0]) {
						c.Fail("C10/sign-verify-differ", "Verify does not hand the verifier the bytes that were signed (pointer vs value parent)", map[string]any{"op": trunc(op, 700)})
					}
				}
				// the holder used again (a timestamping service keeps one holder per policy: signature cleared, a
				// parameter of the protected bucket replaced): the second signature is over the bucket as it is now
				if err == nil && typedHolder && ptr {
					cs.Signature = nil
					cs.Headers.Protected[int64(4)] = []byte(fmt.Sprintf("kid-%d", i))
					cs.Headers.Protected[int64(-70030)] = int64(i)
					sgb := &spySigner{alg: -7, kind: SOk, sig: genSigBytes(r)}
					c.Eval("csign/holder-reused", fmt.Sprintf("%T %d", par.val, i), true)
					if err := cs.Sign(r, sgb, par.val, ext); err == nil && len(sgb.calls) == 1 {
						fresh := cose.Headers{Protected: cs.Headers.Protected}
						sp, _ := refProtectedBstr(&fresh)
						want, rerr := refCountersign(false, par.val, sp, ext)
						if rerr == nil && !bytes.Equal(want, sgb.calls[0]) {
							c.Fail("C10/structure", fmt.Sprintf("a holder signed a second time after its protected bucket was edited: countersigner got %x, RFC 9338 structure over the holder's current protected bucket is %x", sgb.calls[0], want), map[string]any{"parent": fmt.Sprintf("%T", par.val), "holder_protected": cOptMap(map[any]any(cs.Headers.Protected), false)})
						}
						// and what the holder then emits carries that bucket
						if out, merr := cs.MarshalCBOR(); merr == nil {
							if w, perr := refParseFull(out); perr == nil && len(w.Kids) == 3 && !bytes.Equal(w.Kids[0].Ser(), sp) {
								c.Fail("C10/structure", fmt.Sprintf("a holder signed a second time after its protected bucket was edited emits protected bytes %x; its protected bucket encodes to %x", w.Kids[0].Ser(), sp), map[string]any{"parent": fmt.Sprintf("%T", par.val)})
							}
						}
					}
				}
				// abbreviated
				sg0 := &spySigner{alg: -8, kind: SOk, sig: genSigBytes(r)}
				op, obs, _, err0, p := execCsign0(sg0, par, ext)
				if p {
					c.Fail("C10/panic", "Countersign0 panicked", map[string]any{"op": trunc(op, 500)})
					continue
				}
				addCase(c, fmt.Sprintf("csign0/%T", par.val), op, obs, len(sg0.calls) > 0)
				if err0 == nil && len(sg0.calls) == 1 {
					want, rerr := refCountersign(true, par.val, []byte{0x40}, ext)
					if rerr != nil || !bytes.Equal(want, sg0.calls[0]) {
						c.Fail("C10/structure0", fmt.Sprintf("abbreviated countersigner got %x, expected %x", sg0.calls[0], want), map[string]any{"op": trunc(op, 700)})
					}
					vf := &spyVerifier{alg: -8}
					op, obs, _, _ := execCverify0(vf, par, ext, sg0.sig)
					addCase(c, fmt.Sprintf("cverify0/%T", par.val), op, obs, true)
				}
			}
		}
		// refusals: unsigned, payload-less, foreign parents
		for _, pv := range append(genParents(r, false), "a string", 42, nil, &cose.Key{}, cose.Headers{}) {
			par := parentOf(pv, r.Bool())
			sg := &spySigner{alg: -7, kind: SOk, sig: []byte{1}}
			cs := cose.NewCountersignature()
			op, obs, err, p := execCsign(cs, sg, par, ext)
			if p {
				c.Fail("C10/panic", "Countersignature.Sign panicked on a refused parent", map[string]any{"op": trunc(op, 500)})
				continue
			}
			addCase(c, fmt.Sprintf("refuse/%T", par.val), op, obs, true)
			if err == nil || len(sg.calls) > 0 {
				c.Fail("C10/unsigned-parent-accepted", fmt.Sprintf("countersigning an unsigned / unsupported parent %T succeeded or invoked the key", par.val), map[string]any{"op": trunc(op, 700)})
			}
			sg0 := &spySigner{alg: -7, kind: SOk, sig: []byte{1}}
			op, obs, _, err0, _ := execCsign0(sg0, par, ext)
			addCase(c, fmt.Sprintf("refuse0/%T", par.val), op, obs, true)
			if err0 == nil || len(sg0.calls) > 0 {
				c.Fail("C10/unsigned-parent-accepted0", "Countersign0 on an unsigned / unsupported parent succeeded or invoked the key", map[string]any{"op": trunc(op, 700)})
			}
		}
		// payload-less signed parents
		s1 := &cose.Sign1Message{Headers: cose.Headers{Protected: cose.ProtectedHeader{}}, Signature: []byte{1}}
		sm := &cose.SignMessage{Signatures: []*cose.Signature{{Signature: []byte{1}}}}
		for _, pv := range []any{s1, sm} {
			sg := &spySigner{alg: -7, kind: SOk, sig: []byte{1}}
			op, obs, _, err, _ := execCsign0(sg, parentOf(pv, r.Bool()), ext)
			addCase(c, "refuse-payloadless", op, obs, true)
			if !errors.Is(err, cose.ErrMissingPayload) || len(sg.calls) > 0 {
				c.Fail("C10/payloadless-parent", "payload-less parent not refused with ErrMissingPayload", map[string]any{"op": trunc(op, 700)})
			}
		}
	}
	// parents whose payload is present and empty (h''): countersigned like any other parent, constructed and decoded,
	// by pointer and by value, full and abbreviated
	{
		s1 := &cose.Sign1Message{Headers: cose.Headers{Protected: cose.ProtectedHeader{cose.HeaderLabelAlgorithm: cose.AlgorithmES256}}, Payload: []byte{}, Signature: []byte{1, 1}}
		sm := &cose.SignMessage{Headers: cose.Headers{Protected: cose.ProtectedHeader{}}, Payload: []byte{}, Signatures: []*cose.Signature{{Headers: cose.Headers{Protected: cose.ProtectedHeader{cose.HeaderLabelAlgorithm: cose.AlgorithmES256}}, Signature: []byte{2, 2}}}}
		var parents []any
		parents = append(parents, s1, sm)
		if b, err := s1.MarshalCBOR(); err == nil {
			var d1 cose.Sign1Message
			if d1.UnmarshalCBOR(b) == nil {
				parents = append(parents, &d1)
			}
		}
		if b, err := sm.MarshalCBOR(); err == nil {
			var dm cose.SignMessage
			if dm.UnmarshalCBOR(b) == nil {
				parents = append(parents, &dm)
			}
		}
		for _, pv := range parents {
			for _, ptr := range []bool{true, false} {
				for _, ext := range [][]byte{nil, []byte("x")} {
					par := parentOf(pv, ptr)
					cs := &cose.Countersignature{Headers: cose.Headers{Protected: cose.ProtectedHeader{cose.HeaderLabelAlgorithm: cose.AlgorithmES256}}}
					sg := &spySigner{alg: -7, kind: SOk, sig: []byte{7, 7}}
					op, obs, err, p := execCsign(cs, sg, par, ext)
					if p {
						c.Fail("C10/panic", "Countersignature.Sign panicked", map[string]any{"op": trunc(op, 500)})
						continue
					}
					addCase(c, fmt.Sprintf("csign/empty-payload/%T", par.val), op, obs, len(sg.calls) > 0)
					sp, _ := refProtectedBstr(&cs.Headers)
					want, rerr := refCountersign(false, par.val, sp, ext)
					if err != nil || rerr != nil || len(sg.calls) != 1 || !bytes.Equal(want, sg.calls[0]) {
						c.Fail("C10/structure", fmt.Sprintf("a parent with a present, zero-length payload: Sign returned %v, the countersigner was handed %x, the RFC 9338 structure is %x", err, sg.calls, want), map[string]any{"op": trunc(op, 600)})
						continue
					}
					vf := &spyVerifier{alg: -7}
					if verr := cs.Verify(vf, par.val, ext); verr != nil || len(vf.calls) != 1 || !bytes.Equal(vf.calls[0].content, want) {
						c.Fail("C10/sign-verify-differ", fmt.Sprintf("a parent with a present, zero-length payload: Verify returned %v", verr), map[string]any{"op": trunc(op, 600)})
					}
					sg0 := &spySigner{alg: -7, kind: SOk, sig: []byte{8}}
					op0, obs0, _, err0, _ := execCsign0(sg0, par, ext)
					addCase(c, fmt.Sprintf("csign0/empty-payload/%T", par.val), op0, obs0, len(sg0.calls) > 0)
					want0, _ := refCountersign(true, par.val, []byte{0x40}, ext)
					if err0 != nil || len(sg0.calls) != 1 || !bytes.Equal(want0, sg0.calls[0]) {
						c.Fail("C10/structure0", fmt.Sprintf("a parent with a present, zero-length payload: Countersign0 returned %v", err0), map[string]any{"op": trunc(op0, 600)})
					}
				}
			}
		}
	}
	// whatever error the verifier reports - its own, ErrVerification, an unavailable hash - the countersignature does not
	// verify, for the full and the abbreviated form and every kind of parent
	for _, pv := range genParents(r, true) {
		for _, verr := range []error{cose.ErrVerification, errScripted, cose.ErrUnavailableHashFunc, fmt.Errorf("hsm: %w", errScripted), errors.New("verification error")} {
			par := parentOf(pv, r.Bool())
			cs := &cose.Countersignature{Headers: cose.Headers{Protected: cose.ProtectedHeader{cose.HeaderLabelAlgorithm: cose.AlgorithmES256}}, Signature: []byte{1, 2, 3}}
			vf := &spyVerifier{alg: -7, err: verr}
			var e1, e0 error
			p1, _ := protect(func() { e1 = cs.Verify(vf, par.val, nil) })
			vf0 := &spyVerifier{alg: -7, err: verr}
			p0, _ := protect(func() { e0 = cose.VerifyCountersign0(vf0, par.val, nil, []byte{1, 2, 3}) })
			c.Eval(fmt.Sprintf("cverify/refusing-verifier/%T", par.val), fmt.Sprint(verr), true)
			if p1 || p0 {
				continue
			}
			if len(vf.calls) == 1 && e1 == nil {
				c.Fail("C10/verifier-error-not-propagated", fmt.Sprintf("Countersignature.Verify over a %T returned nil although the verifier returned %q", par.val, verr), map[string]any{"verifier_error": fmt.Sprint(verr)})
			}
			if len(vf0.calls) == 1 && e0 == nil {
				c.Fail("C10/verifier-error-not-propagated", fmt.Sprintf("VerifyCountersign0 over a %T returned nil although the verifier returned %q", par.val, verr), map[string]any{"verifier_error": fmt.Sprint(verr)})
			}
		}
	}
	// a parent decoded with a list of three different countersignatures: each entry, used on its own, hands the verifier
	// the structure over its own protected bytes and its own signature
	for _, label := range []int64{7, 11} {
		var ents []*W
		for e := 0; e < 3; e++ {
			ents = append(ents, wArr(-1, wBstr(wMap(-1, wInt(1, -1), wInt(-7, -1), wInt(4, -1), wBstr([]byte{byte('a' + e)}, -1)).Ser(), -1), wMap(-1), wBstr([]byte{byte(0x30 + e), 0xee}, -1)))
		}
		pcontent := wMap(-1, wInt(1, -1), wInt(-7, -1)).Ser()
		data := wTag(18, -1, wArr(-1, wBstr(pcontent, -1), wMap(-1, wInt(label, -1), wArr(-1, ents...)), wBstr([]byte("p"), -1), wBstr([]byte{1, 2}, -1))).Ser()
		var m cose.Sign1Message
		if err := m.UnmarshalCBOR(data); err == nil {
			if list, ok := m.Headers.Unprotected[label].([]*cose.Countersignature); ok {
				ext := []byte("x")
				for e, cs := range list {
					if e >= len(ents) || cs == nil {
						continue
					}
					vf := &spyVerifier{alg: -7}
					cs.Verify(vf, &m, ext)
					c.Eval("cverify/decoded-list", fmt.Sprint(label, e), true)
					want := refArray(refTstr("CounterSignatureV2"), refBstr(pcontent), refBstr(ents[e].Kids[0].Str), refBstr(ext), refBstr([]byte("p")), refArray(refBstr([]byte{1, 2})))
					if len(vf.calls) != 1 || !bytes.Equal(vf.calls[0].content, want) || !bytes.Equal(vf.calls[0].sig, ents[e].Kids[2].Str) {
						c.Fail("C10/structure", fmt.Sprintf("entry %d of a decoded list of countersignatures: the verifier was handed %x with signature %x; the entry on the wire has protected bytes %x and signature %x", e, vfirst(vf), vsig(vf), ents[e].Kids[0].Str, ents[e].Kids[2].Str), map[string]any{"data": hx(data), "entry": e})
					}
				}
			}
		}
	}
	// one parent object, passed by pointer, edited between two uses (payload replaced, signature replaced, a protected
	// parameter changed, the signature removed): the second structure is over the parent as it is now
	for _, kindName := range []string{"COSE_Sign1", "COSE_Sign", "COSE_Signature", "COSE_Countersignature"} {
		for _, edit := range []string{"payload", "signature", "protected", "unsigned"} {
			s1 := &cose.Sign1Message{Headers: cose.Headers{Protected: cose.ProtectedHeader{cose.HeaderLabelAlgorithm: cose.AlgorithmES256, int64(4): []byte("k0")}}, Payload: []byte("payload-0"), Signature: []byte{1, 1}}
			sm := &cose.SignMessage{Headers: cose.Headers{Protected: cose.ProtectedHeader{int64(4): []byte("k0")}}, Payload: []byte("payload-0"), Signatures: []*cose.Signature{{Headers: cose.Headers{Protected: cose.ProtectedHeader{cose.HeaderLabelAlgorithm: cose.AlgorithmES256}}, Signature: []byte{2, 2}}}}
			sg := &cose.Signature{Headers: cose.Headers{Protected: cose.ProtectedHeader{cose.HeaderLabelAlgorithm: cose.AlgorithmES256, int64(4): []byte("k0")}}, Signature: []byte{3, 3}}
			cp := &cose.Countersignature{Headers: cose.Headers{Protected: cose.ProtectedHeader{cose.HeaderLabelAlgorithm: cose.AlgorithmES256, int64(4): []byte("k0")}}, Signature: []byte{4, 4}}
			var parent any
			var apply func()
			switch kindName {
			case "COSE_Sign1":
				parent = s1
				apply = map[string]func(){"payload": func() { s1.Payload = []byte("payload-1") }, "signature": func() { s1.Signature = []byte{9, 9} }, "protected": func() { s1.Headers.Protected[int64(4)] = []byte("k1") }, "unsigned": func() { s1.Signature = nil }}[edit]
			case "COSE_Sign":
				parent = sm
				apply = map[string]func(){"payload": func() { sm.Payload = []byte("payload-1") }, "signature": nil, "protected": func() { sm.Headers.Protected[int64(4)] = []byte("k1") }, "unsigned": func() { sm.Signatures = nil }}[edit]
			case "COSE_Signature":
				parent = sg
				apply = map[string]func(){"payload": nil, "signature": func() { sg.Signature = []byte{9, 9} }, "protected": func() { sg.Headers.Protected[int64(4)] = []byte("k1") }, "unsigned": func() { sg.Signature = nil }}[edit]
			default:
				parent = cp
				apply = map[string]func(){"payload": nil, "signature": func() { cp.Signature = []byte{9, 9} }, "protected": func() { cp.Headers.Protected[int64(4)] = []byte("k1") }, "unsigned": func() { cp.Signature = nil }}[edit]
			}
			if apply == nil {
				continue
			}
			ext := []byte("x")
			holder := func() *cose.Countersignature {
				return &cose.Countersignature{Headers: cose.Headers{Protected: cose.ProtectedHeader{cose.HeaderLabelAlgorithm: cose.AlgorithmES256}}}
			}
			h1 := holder()
			g1 := &spySigner{alg: -7, kind: SOk, sig: []byte{7, 7}}
			if err := h1.Sign(nil, g1, parent, ext); err != nil {
				continue
			}
			cose.Countersign0(nil, &spySigner{alg: -7, kind: SOk, sig: []byte{7}}, parent, ext)
			h1.Verify(&spyVerifier{alg: -7}, parent, ext)
			apply()
			rep := map[string]any{"parent": kindName, "edit": edit}
			c.Eval("csign/pointer-parent-edited/"+kindName, edit, true)
			sp, _ := refProtectedBstr(&h1.Headers)
			want, werr := refCountersign(false, parent, sp, ext)
			want0, _ := refCountersign(true, parent, []byte{0x40}, ext)
			// verify the earlier countersignature, sign a new one, abbreviated form
			vf := &spyVerifier{alg: -7}
			verr := h1.Verify(vf, parent, ext)
			h2 := holder()
			g2 := &spySigner{alg: -7, kind: SOk, sig: []byte{8, 8}}
			serr := h2.Sign(nil, g2, parent, ext)
			g0 := &spySigner{alg: -7, kind: SOk, sig: []byte{8}}
			_, err0 := cose.Countersign0(nil, g0, parent, ext)
			if edit == "unsigned" {
				if verr == nil || serr == nil || err0 == nil || len(vf.calls)+len(g2.calls)+len(g0.calls) > 0 {
					c.Fail("C10/unsigned-parent-accepted", fmt.Sprintf("a parent whose signature was removed after an earlier countersigning is still accepted: Verify=%v Sign=%v Countersign0=%v, keys invoked %d times", verr, serr, err0, len(vf.calls)+len(g2.calls)+len(g0.calls)), rep)
				}
				continue
			}
			if werr != nil {
				continue
			}
			if len(vf.calls) != 1 || !bytes.Equal(vf.calls[0].content, want) {
				c.Fail("C10/structure", fmt.Sprintf("the parent's %s was changed between two uses of the same parent object: the verifier was handed %x, the structure over the parent as it is now is %x", edit, vfirst(vf), want), rep)
			}
			if serr != nil || len(g2.calls) != 1 || !bytes.Equal(g2.calls[0], want) {
				c.Fail("C10/structure", fmt.Sprintf("the parent's %s was changed between two uses of the same parent object: the countersigner was handed %x (%v), the structure over the parent as it is now is %x", edit, g2.calls, serr, want), rep)
			}
			if err0 != nil || len(g0.calls) != 1 || !bytes.Equal(g0.calls[0], want0) {
				c.Fail("C10/structure0", fmt.Sprintf("the parent's %s was changed between two uses of the same parent object: the abbreviated countersigner was handed %x (%v), expected %x", edit, g0.calls, err0, want0), rep)
			}
		}
	}
	// concurrent countersigning of distinct parents with one signer: every result belongs to its own parent
	{
		keysC := realKeySet(r)
		rounds := 4
		if thorough {
			rounds = 60
		}
		for rd := 0; rd < rounds; rd++ {
			k := keysC[rd%len(keysC)]
			const G = 12
			parents := make([]*cose.Sign1Message, G)
			full := make([]*cose.Countersignature, G)
			abbr := make([][]byte, G)
			errsF := make([]error, G)
			errsA := make([]error, G)
			yr := &yieldingReader{r: r.Fork()}
			var wg sync.WaitGroup
			for g := 0; g < G; g++ {
				parents[g] = &cose.Sign1Message{Headers: cose.Headers{Protected: cose.ProtectedHeader{cose.HeaderLabelAlgorithm: k.alg, int64(4): []byte(fmt.Sprintf("kid-%d-%d", rd, g))}}, Payload: []byte(fmt.Sprintf("payload %d/%d with some length to it", rd, g)), Signature: []byte{byte(g), 1, 2, 3}}
				wg.Add(1)
				go func(g int) {
					defer wg.Done()
					cs := cose.NewCountersignature()
					cs.Headers.Protected.SetAlgorithm(k.alg)
					errsF[g] = cs.Sign(yr, k.signer(), parents[g], []byte("ext"))
					full[g] = cs
					abbr[g], errsA[g] = cose.Countersign0(yr, k.signer(), *parents[g], []byte("ext"))
				}(g)
			}
			wg.Wait()
			c.Eval("concurrent-countersign/"+k.alg.String(), fmt.Sprint(rd), true)
			for g := 0; g < G; g++ {
				if errsF[g] != nil || errsA[g] != nil {
					c.Fail("C10/concurrent-countersign-error", fmt.Sprintf("%v / %v", errsF[g], errsA[g]), map[string]any{"alg": k.alg.String()})
					continue
				}
				if full[g].Verify(k.verifier(), parents[g], []byte("ext")) != nil || cose.VerifyCountersign0(k.verifier(), parents[g], []byte("ext"), abbr[g]) != nil {
					c.Fail("C10/concurrent-countersign-wrong-parent", "a countersignature made while other parents were being countersigned does not verify against its own parent", map[string]any{"alg": k.alg.String()})
				}
			}
		}
	}
	// the same with a signer that is slow to read its input: the bytes it finally reads must still be
	// the structure of its own parent (a to-be-signed buffer must not be shared between calls)
	{
		rounds := 6
		if thorough {
			rounds = 100
		}
		for rd := 0; rd < rounds; rd++ {
			const G = 12
			parents := make([]*cose.Sign1Message, G)
			seen := make([][]byte, 2*G)
			var wg sync.WaitGroup
			for g := 0; g < G; g++ {
				parents[g] = &cose.Sign1Message{Headers: cose.Headers{Protected: cose.ProtectedHeader{cose.HeaderLabelAlgorithm: cose.AlgorithmES256, int64(4): []byte(fmt.Sprintf("kid-%d-%d", rd, g))}}, Payload: []byte(fmt.Sprintf("payload %d/%d ....................", rd, g)), Signature: []byte{byte(g), 9, 9}}
				wg.Add(1)
				go func(g int) {
					defer wg.Done()
					sg := &slowSigner{alg: -7}
					cs := cose.NewCountersignature()
					cs.Headers.Protected.SetAlgorithm(-7)
					cs.Sign(nil, sg, parents[g], []byte("e"))
					seen[2*g] = sg.seen
					sg0 := &slowSigner{alg: -7}
					cose.Countersign0(nil, sg0, parents[g], []byte("e"))
					seen[2*g+1] = sg0.seen
				}(g)
			}
			wg.Wait()
			c.Eval("concurrent-countersign-slow-signer", fmt.Sprint(rd), true)
			for g := 0; g < G; g++ {
				wantF, _ := refCountersign(false, parents[g], []byte{0x43, 0xa1, 0x01, 0x26}, []byte("e"))
				wantA, _ := refCountersign(true, parents[g], []byte{0x40}, []byte("e"))
				if !bytes.Equal(seen[2*g], wantF) || !bytes.Equal(seen[2*g+1], wantA) {
					c.Fail("C10/concurrent-tbs-corrupted", fmt.Sprintf("a countersigner running concurrently with others read %x / %x, its own structure is %x / %x", seen[2*g], seen[2*g+1], wantF, wantA), map[string]any{"round": rd, "goroutine": g})
					break
				}
			}
		}
	}
	// binding with real keys
	keys := realKeySet(r)
	m := 6
	if thorough {
		m = 200
	}
	for i := 0; i < m; i++ {
		k := keys[i%len(keys)]
		ext := genGoExternal(r)
		for _, pv := range genParents(r, true) {
			if s1, ok := pv.(*cose.Sign1Message); ok && s1.Payload == nil {
				s1.Payload = []byte{}
			}
			if sm, ok := pv.(*cose.SignMessage); ok && sm.Payload == nil {
				sm.Payload = []byte{}
			}
			par := parentOf(pv, true)
			cs := cose.NewCountersignature()
			cs.Headers.Protected.SetAlgorithm(k.alg)
			if err := cs.Sign(r, k.signer(), par.val, ext); err != nil {
				continue
			}
			sig0, err := cose.Countersign0(r, k.signer(), par.val, ext)
			if err != nil {
				continue
			}
			rep := map[string]any{"parent": trunc(par.coq, 600), "alg": k.alg.String()}
			check := func(what string, parent any, e []byte, wantOK bool) {
				c.Eval("binding/"+what, par.coq+hx(e), true)
				err := cs.Verify(k.verifier(), parent, e)
				err0 := cose.VerifyCountersign0(k.verifier(), parent, e, sig0)
				if (err == nil) != wantOK {
					c.Fail("C10/binding-full/"+what, fmt.Sprintf("full countersignature verify=%v, expected ok=%v", err, wantOK), rep)
				}
				if (err0 == nil) != wantOK {
					c.Fail("C10/binding-abbreviated/"+what, fmt.Sprintf("abbreviated countersignature verify=%v, expected ok=%v", err0, wantOK), rep)
				}
			}
			check("same", par.val, ext, true)
			check("external-changed", par.val, append(append([]byte{}, ext...), 7), false)
			for _, mut := range mutateParentAll(pv) {
				check(mut.what, mut.val, ext, mut.ok)
			}
			// the two forms are not interchangeable, and neither is a message signature
			if err := cose.VerifyCountersign0(k.verifier(), par.val, ext, cs.Signature); err == nil {
				c.Fail("C10/form-confusion", "full countersignature accepted as abbreviated", rep)
			}
			cs2 := &cose.Countersignature{Headers: cs.Headers, Signature: sig0}
			if err := cs2.Verify(k.verifier(), par.val, ext); err == nil {
				c.Fail("C10/form-confusion", "abbreviated countersignature accepted as full", rep)
			}
			if s1, ok := pv.(*cose.Sign1Message); ok {
				// a countersignature made over a COSE_Sign with the same protected bytes and payload does not bind
				// the COSE_Sign1's signature and is not a countersignature of the COSE_Sign1
				asSign := &cose.SignMessage{Headers: s1.Headers, Payload: s1.Payload, Signatures: []*cose.Signature{{Signature: []byte{1}}}}
				cs3 := cose.NewCountersignature()
				cs3.Headers.Protected.SetAlgorithm(k.alg)
				if err := cs3.Sign(r, k.signer(), asSign, ext); err == nil {
					if err := cs3.Verify(k.verifier(), par.val, ext); err == nil {
						c.Fail("C10/parent-kind-confusion", "a countersignature made over a COSE_Sign verifies against a COSE_Sign1 with the same protected bytes and payload", rep)
					}
				}
				if s0, err := cose.Countersign0(r, k.signer(), asSign, ext); err == nil {
					if err := cose.VerifyCountersign0(k.verifier(), par.val, ext, s0); err == nil {
						c.Fail("C10/parent-kind-confusion", "an abbreviated countersignature made over a COSE_Sign verifies against a COSE_Sign1", rep)
					}
				}
				replay := &cose.Sign1Message{Headers: s1.Headers, Payload: s1.Payload, Signature: cs.Signature}
				if err := replay.Verify(ext, k.verifier()); err == nil {
					c.Fail("C10/replay-as-message-signature", "countersignature verified as the message signature", rep)
				}
			}
		}
	}
}

type parentMut struct {
	what string
	val  any
	ok   bool
}

func withProtected(h cose.Headers) cose.Headers {
	n := cloneHeaders(h)
	if len(n.RawProtected) > 0 {
		n.RawProtected = append(append([]byte{}, n.RawProtected...), 0)[:len(n.RawProtected)]
		// change the content: wrap a different map
		n.RawProtected = []byte{0x43, 0xa1, 0x18, 0x63}
		n.RawProtected = append(n.RawProtected, 0x01)[:4]
		n.RawProtected = []byte{0x44, 0xa1, 0x18, 0x63, 0x01}
		return n
	}
	if n.Protected == nil {
		n.Protected = cose.ProtectedHeader{}
	}
	n.Protected[int64(99)] = int64(1)
	return n
}
func withUnprotected(h cose.Headers) cose.Headers {
	n := cloneHeaders(h)
	if len(n.RawUnprotected) > 0 {
		n.RawUnprotected = []byte{0xa1, 0x18, 0x63, 0x01}
		return n
	}
	if n.Unprotected == nil {
		n.Unprotected = cose.UnprotectedHeader{}
	}
	n.Unprotected[int64(99)] = int64(1)
	return n
}

// badUnprotected: the parent with an unprotected bucket that cannot be encoded (the countersignature
// structure does not contain it, so countersigning and verifying must be unaffected)
func badUnprotected(h cose.Headers) []struct {
	what string
	h    cose.Headers
} {
	mk := func(f func(u cose.UnprotectedHeader)) cose.Headers {
		n := cloneHeaders(h)
		n.RawUnprotected = nil
		n.Unprotected = cose.UnprotectedHeader{}
		f(n.Unprotected)
		return n
	}
	return []struct {
		what string
		h    cose.Headers
	}{
		{"unprotected-unencodable-value", mk(func(u cose.UnprotectedHeader) { u[int64(99)] = make(chan int) })},
		{"unprotected-invalid-kid", mk(func(u cose.UnprotectedHeader) { u[int64(4)] = int64(5) })},
		{"unprotected-unsigned-countersignature", mk(func(u cose.UnprotectedHeader) { u[int64(11)] = &cose.Countersignature{} })},
		{"unprotected-iv-and-partial-iv", mk(func(u cose.UnprotectedHeader) { u[int64(5)] = []byte{1}; u[int64(6)] = []byte{2} })},
	}
}

func flip(b []byte) []byte {
	if len(b) == 0 {
		return []byte{1}
	}
	o := append([]byte{}, b...)
	o[len(o)-1] ^= 1
	return o
}

func mutateParent(pv any) []parentMut {
	switch p := pv.(type) {
	case *cose.Sign1Message:
		a, b, c2, d := *p, *p, *p, *p
		a.Headers = withProtected(p.Headers)
		b.Payload = flip(p.Payload)
		c2.Signature = flip(p.Signature)
		d.Headers = withUnprotected(p.Headers)
		return []parentMut{{"protected-changed", &a, false}, {"payload-changed", b, false}, {"parent-signature-changed", &c2, false}, {"unprotected-changed", d, true}}
	case *cose.SignMessage:
		a, b, d := *p, *p, *p
		a.Headers = withProtected(p.Headers)
		b.Payload = flip(p.Payload)
		d.Headers = withUnprotected(p.Headers)
		return []parentMut{{"protected-changed", a, false}, {"payload-changed", &b, false}, {"unprotected-changed", &d, true}}
	case *cose.Signature:
		a, b, d := *p, *p, *p
		a.Headers = withProtected(p.Headers)
		b.Signature = flip(p.Signature)
		d.Headers = withUnprotected(p.Headers)
		return []parentMut{{"protected-changed", &a, false}, {"parent-signature-changed", b, false}, {"unprotected-changed", &d, true}}
	case *cose.Countersignature:
		a, b, d := *p, *p, *p
		a.Headers = withProtected(p.Headers)
		b.Signature = flip(p.Signature)
		d.Headers = withUnprotected(p.Headers)
		return []parentMut{{"protected-changed", a, false}, {"parent-signature-changed", &b, false}, {"unprotected-changed", d, true}}
	}
	return nil
}

// mutateParentAll: mutateParent plus the variants whose unprotected bucket is not encodable
func mutateParentAll(pv any) []parentMut {
	out := mutateParent(pv)
	switch p := pv.(type) {
	case *cose.Sign1Message:
		for _, b := range badUnprotected(p.Headers) {
			d := *p
			d.Headers = b.h
			out = append(out, parentMut{b.what, &d, true})
		}
	case *cose.SignMessage:
		for _, b := range badUnprotected(p.Headers) {
			d := *p
			d.Headers = b.h
			out = append(out, parentMut{b.what, d, true})
		}
	case *cose.Signature:
		for _, b := range badUnprotected(p.Headers) {
			d := *p
			d.Headers = b.h
			out = append(out, parentMut{b.what, &d, true})
		}
	case *cose.Countersignature:
		for _, b := range badUnprotected(p.Headers) {
			d := *p
			d.Headers = b.h
			out = append(out, parentMut{b.what, d, true})
		}
	}
	return out
}

// ---------- C11 ----------

func runC11(c *Collector, r *Rng, thorough bool) {
	c.Rule = "COSE_Sign with n = 0..6 signatures (constructed and decoded), recording verifiers with distinct algorithms: every subset of failing / empty / nil signatures, every verifier count 0..n+1, rotations and transpositions of the verifier list; Verify must be nil iff counts match and every signature verifies under the verifier at its position, the first failure decides and later verifiers are not called; Sign fills every slot or errors; zero or empty signatures can be neither encoded nor decoded; all compared with the Coq model; non-trivial = at least one key invoked or a codec verdict; distinct by op term"
	maxN := 5
	if thorough {
		maxN = 6
	}
	algs := []cose.Algorithm{-7, -35, -36, -8, -37, -38, -39}
	mkMsg := func(n int, emptyMask, nilMask int) *cose.SignMessage {
		m := &cose.SignMessage{Headers: cose.Headers{Protected: cose.ProtectedHeader{int64(4): []byte("k")}, Unprotected: cose.UnprotectedHeader{}}, Payload: []byte("payload")}
		for j := 0; j < n; j++ {
			s := &cose.Signature{Headers: cose.Headers{Protected: cose.ProtectedHeader{cose.HeaderLabelAlgorithm: algs[j]}, Unprotected: cose.UnprotectedHeader{}}, Signature: []byte{byte(j + 1), 0xee}}
			if emptyMask&(1<<j) != 0 {
				s.Signature = nil
			}
			if nilMask&(1<<j) != 0 {
				s = nil
			}
			m.Signatures = append(m.Signatures, s)
		}
		return m
	}
	for n := 0; n <= maxN; n++ {
		for failMask := 0; failMask < 1<<n; failMask++ {
			if !thorough && n >= 4 && failMask%3 != 0 && failMask != (1<<n)-1 {
				continue
			}
			for _, variant := range []string{"positional", "rotated", "swapped", "fewer", "more", "none"} {
				if variant != "positional" && failMask != 0 && failMask != 1 && failMask != 1<<(n/2) {
					continue
				}
				m := mkMsg(n, 0, 0)
				var vfs []*spyVerifier
				for j := 0; j < n; j++ {
					v := &spyVerifier{alg: algs[j]}
					if failMask&(1<<j) != 0 {
						v.err = cose.ErrVerification
					}
					vfs = append(vfs, v)
				}
				expectOK := failMask == 0 && n > 0
				switch variant {
				case "rotated":
					if n < 2 {
						continue
					}
					vfs = append(vfs[1:], vfs[0])
					expectOK = false
				case "swapped":
					if n < 2 {
						continue
					}
					vfs[0], vfs[n-1] = vfs[n-1], vfs[0]
					expectOK = false
				case "fewer":
					if n < 1 {
						continue
					}
					vfs = vfs[:n-1]
					expectOK = false
				case "more":
					vfs = append(vfs, &spyVerifier{alg: -7})
					expectOK = false
				case "none":
					vfs = nil
					expectOK = false
				}
				ext := pick(r, [][]byte{nil, []byte("e")})
				op, obs, err, p := execVerifyMsg(m, ext, vfs)
				if p {
					c.Fail("C11/panic", "SignMessage.Verify panicked", map[string]any{"op": trunc(op, 500)})
					continue
				}
				addCase(c, fmt.Sprintf("verify/n=%d/%s", n, variant), op, obs, true)
				rep := map[string]any{"op": trunc(op, 900), "n": n, "variant": variant, "failmask": failMask}
				if (err == nil) != expectOK {
					c.Fail("C11/verify-verdict", fmt.Sprintf("Verify returned %v, expected success=%v", err, expectOK), rep)
				}
				if variant == "positional" && n > 0 {
					// the first failing position decides; later verifiers are not consulted
					first := -1
					for j := 0; j < n; j++ {
						if failMask&(1<<j) != 0 {
							first = j
							break
						}
					}
					for j, v := range vfs {
						called := len(v.calls) > 0
						should := first < 0 || j <= first
						if called != should {
							c.Fail("C11/call-pattern", fmt.Sprintf("verifier %d called=%v, expected %v (first failure at %d)", j, called, should, first), rep)
						}
					}
				}
			}
			// empty / nil signatures in the list: Verify, MarshalCBOR
			if n > 0 {
				for _, mode := range []string{"empty", "nilptr"} {
					em, nm := failMask, 0
					if mode == "nilptr" {
						em, nm = 0, failMask
					}
					if failMask == 0 {
						continue
					}
					m := mkMsg(n, em, nm)
					var vfs []*spyVerifier
					for j := 0; j < n; j++ {
						vfs = append(vfs, &spyVerifier{alg: algs[j]})
					}
					op, obs, err, p := execVerifyMsg(m, nil, vfs)
					if p {
						c.Fail("C11/panic", "SignMessage.Verify panicked on "+mode+" signature", map[string]any{"op": trunc(op, 500)})
					} else {
						addCase(c, fmt.Sprintf("verify-%s/n=%d", mode, n), op, obs, true)
						if err == nil {
							c.Fail("C11/empty-signature-verified", "Verify succeeded although a signature slot is "+mode, map[string]any{"op": trunc(op, 900)})
						}
					}
					op, obs, out, merr, p := execEncSignMsg(m)
					if p {
						c.Fail("C11/panic", "SignMessage.MarshalCBOR panicked on "+mode+" signature", map[string]any{"op": trunc(op, 500)})
					} else {
						addCase(c, fmt.Sprintf("encode-%s/n=%d", mode, n), op, obs, true)
						if merr == nil {
							c.Fail("C11/empty-signature-encoded", fmt.Sprintf("MarshalCBOR emitted %x although a signature slot is %s", out, mode), map[string]any{"op": trunc(op, 900)})
						}
					}
				}
			}
		}
		// nil entries in the verifier / signer lists can never make the call succeed
		if n >= 1 {
			for hole := 0; hole < n; hole++ {
				m := mkMsg(n, 0, 0)
				vs := make([]cose.Verifier, n)
				for j := 0; j < n; j++ {
					if j != hole {
						vs[j] = &spyVerifier{alg: algs[j]}
					}
				}
				var verr error
				p, _ := protect(func() { verr = m.Verify(nil, vs...) })
				c.Eval(fmt.Sprintf("verify-nil-verifier/n=%d", n), fmt.Sprint(hole), true)
				if !p && verr == nil {
					c.Fail("C11/nil-verifier-skipped", fmt.Sprintf("Verify returned nil although verifier %d of %d is nil (signature %d was never checked)", hole, n, hole), map[string]any{"n": n, "hole": hole})
				}
				ms := mkMsg(n, (1<<n)-1, 0)
				ss := make([]cose.Signer, n)
				for j := 0; j < n; j++ {
					if j != hole {
						ss[j] = &spySigner{alg: algs[j], kind: SOk, sig: []byte{1}}
					}
				}
				var serr error
				p, _ = protect(func() { serr = ms.Sign(nil, nil, ss...) })
				if !p && serr == nil {
					c.Fail("C11/nil-signer-skipped", fmt.Sprintf("Sign returned nil although signer %d of %d is nil", hole, n), map[string]any{"n": n, "hole": hole})
				}
			}
		}
		// Sign fills every slot or reports an error
		for _, cnt := range []int{n - 1, n, n + 1} {
			if cnt < 0 {
				continue
			}
			m := mkMsg(n, (1<<n)-1, 0)
			var sgs []*spySigner
			for j := 0; j < cnt; j++ {
				sgs = append(sgs, &spySigner{alg: algs[j%len(algs)], kind: SOk, sig: []byte{byte(j), 1}})
			}
			op, obs, err, p := execSignMsg(m, nil, sgs)
			if p {
				c.Fail("C11/panic", "SignMessage.Sign panicked", map[string]any{"op": trunc(op, 500)})
				continue
			}
			addCase(c, fmt.Sprintf("sign/n=%d/signers=%d", n, cnt), op, obs, true)
			if err == nil {
				if n == 0 || cnt != n {
					c.Fail("C11/sign-count", fmt.Sprintf("Sign succeeded with %d signers for %d signatures", cnt, n), map[string]any{"op": trunc(op, 900)})
				}
				for j, s := range m.Signatures {
					if len(s.Signature) == 0 {
						c.Fail("C11/sign-unfilled", fmt.Sprintf("Sign returned nil but slot %d is empty", j), map[string]any{"op": trunc(op, 900)})
					}
				}
			}
		}
		// zero signatures: codec
		if n == 0 {
			m := mkMsg(0, 0, 0)
			op, obs, _, merr, _ := execEncSignMsg(m)
			addCase(c, "encode/n=0", op, obs, true)
			if !errors.Is(merr, cose.ErrNoSignatures) {
				c.Fail("C11/zero-signatures-encoded", "COSE_Sign with no signatures was encoded or refused with another error", map[string]any{"op": op})
			}
		}
	}
	// decode side: zero / empty signatures on the wire
	for _, hexs := range []string{
		"d8628440a0f680",                     // signatures: []
		"d8628440a0f6f6",                     // signatures: null
		"d8628440a0f6818340a040",             // one COSE_Signature with h''
		"d8628440a0f6818340a0f6",             // signature null
		"d8628440a0f6828340a041018340a040",   // second one empty
		"d8628440a0f6818340a04101",           // valid
		"d8628440a0f6828340a041018340a04102", // valid, two
		"d8628440a0f681824040",               // 2-array
	} {
		b := unhex(hexs)
		d := decodeCase(c, "decode/wire", "DSignMsg", b)
		if d.err == nil && !d.paniced {
			for j, s := range d.sm.Signatures {
				if s == nil || len(s.Signature) == 0 {
					c.Fail("C11/empty-signature-decoded", fmt.Sprintf("decoder accepted a COSE_Sign whose signature %d is empty", j), map[string]any{"data": hexs})
				}
			}
			if len(d.sm.Signatures) == 0 {
				c.Fail("C11/zero-signatures-decoded", "decoder accepted a COSE_Sign without signatures", map[string]any{"data": hexs})
			}
		}
	}
	// decoded message, real positional semantics with spies
	for i := 0; i < 30; i++ {
		t := genSignMsgTree(r, GenCfg{MaxEntries: 3, ValDepth: 1, NoAlg: false})
		// the same COSE_Signature more than once ([A,A], [A,B,A], ...): positions are what the wire says
		if sigs := t.Kids[0].Kids[3]; i%3 == 0 && sigs.Maj == 4 && len(sigs.Kids) > 0 {
			a := sigs.Kids[0]
			b := sigs.Kids[len(sigs.Kids)-1]
			sigs.Kids = pick(r, [][]*W{{a, a}, {a, b, a}, {a, a, b}, {b, a, a, a}})
		}
		var d decoded
		if i%3 == 0 {
			d = decodeCase(c, "decode/repeated-signature", "DSignMsg", t.Ser())
		} else {
			d = decodeKind("DSignMsg", t.Ser())
		}
		if d.err != nil || d.paniced {
			continue
		}
		if w, err := refParseFull(t.Ser()); err == nil {
			wire := w.Kids[0].Kids[3].Kids
			rep := map[string]any{"data": hx(t.Ser())}
			if len(d.sm.Signatures) != len(wire) {
				c.Fail("C11/decoded-count", fmt.Sprintf("the message carries %d COSE_Signature entries, the decoded message has %d", len(wire), len(d.sm.Signatures)), rep)
				continue
			}
			for j, sgn := range d.sm.Signatures {
				if sgn == nil || !bytes.Equal(sgn.Signature, wire[j].Kids[2].Str) || !bytes.Equal(stripBstrHead(sgn.Headers.RawProtected), wire[j].Kids[0].Str) {
					c.Fail("C11/decoded-position", fmt.Sprintf("decoded signature %d is not the %d-th COSE_Signature of the message", j, j), rep)
					break
				}
			}
		}
		if d.sm.Payload == nil {
			continue
		}
		var vfs []*spyVerifier
		for _, s := range d.sm.Signatures {
			a, ok := headerAlg(s.Headers.Protected)
			if !ok {
				a = -7
			}
			vfs = append(vfs, &spyVerifier{alg: a})
		}
		if r.Bool() && len(vfs) > 1 {
			vfs[0], vfs[1] = vfs[1], vfs[0]
		}
		op, obs, _, _ := execVerifyMsg(d.sm, []byte("x"), vfs)
		addCase(c, "verify/decoded", op, obs, true)
	}
	// ---- several signers with the SAME algorithm but their own protected headers: each signature is over its own
	// Sig_structure (recording keys), and with real keys every signature verifies independently with the standard
	// library over the harness's RFC structure, at boundary payload / external lengths; tampering with any one
	// signer's protected bytes fails the whole verification ----
	for n := 2; n <= 4; n++ {
		m := &cose.SignMessage{Headers: cose.Headers{Protected: cose.ProtectedHeader{int64(4): []byte("body")}}, Payload: []byte("payload")}
		var sgs []*spySigner
		var vfs []*spyVerifier
		for j := 0; j < n; j++ {
			m.Signatures = append(m.Signatures, &cose.Signature{Headers: cose.Headers{Protected: cose.ProtectedHeader{cose.HeaderLabelAlgorithm: cose.AlgorithmES256, int64(4): []byte(fmt.Sprintf("signer-%d", j))}}})
			sgs = append(sgs, &spySigner{alg: -7, kind: SOk, sig: []byte{byte(j + 1), 0xab}})
			vfs = append(vfs, &spyVerifier{alg: -7})
		}
		op, obs, err, p := execSignMsg(m, []byte("ext"), sgs)
		if p {
			c.Fail("C11/panic", "Sign panicked", map[string]any{"op": trunc(op, 400)})
			continue
		}
		addCase(c, "same-alg/sign", op, obs, true)
		if err == nil {
			for j := range sgs {
				want, _ := refSigN(&m.Headers, &m.Signatures[j].Headers, []byte("ext"), m.Payload)
				if len(sgs[j].calls) != 1 || !bytes.Equal(sgs[j].calls[0], want) {
					c.Fail("C11/own-structure", fmt.Sprintf("signer %d of %d (all ES256) was not handed its own Sig_structure", j, n), map[string]any{"op": trunc(op, 400)})
				}
			}
			op, obs, _, _ = execVerifyMsg(m, []byte("ext"), vfs)
			addCase(c, "same-alg/verify", op, obs, true)
			for j := range vfs {
				want, _ := refSigN(&m.Headers, &m.Signatures[j].Headers, []byte("ext"), m.Payload)
				if len(vfs[j].calls) != 1 || !bytes.Equal(vfs[j].calls[0].content, want) {
					c.Fail("C11/own-structure", fmt.Sprintf("verifier %d of %d (all ES256) was not handed its own signer's Sig_structure", j, n), map[string]any{"op": trunc(op, 400)})
				}
			}
		}
	}
	rkeys := realKeySet(r)
	for _, k := range []realKey{rkeys[0], rkeys[3], rkeys[4]} {
		for _, ln := range []int{0, 23, 24, 255, 256, 65535, 65536} {
			if !thorough && k.name != "P-256" && ln > 256 {
				continue
			}
			payload, ext := bytes.Repeat([]byte{0x61}, ln), bytes.Repeat([]byte{0x62}, (ln+1)%65537)
			m := &cose.SignMessage{Headers: cose.Headers{Protected: cose.ProtectedHeader{int64(4): []byte("body")}}, Payload: payload}
			n := 3
			var signers []cose.Signer
			var verifiers []cose.Verifier
			for j := 0; j < n; j++ {
				m.Signatures = append(m.Signatures, &cose.Signature{Headers: cose.Headers{Protected: cose.ProtectedHeader{cose.HeaderLabelAlgorithm: k.alg, int64(4): []byte(fmt.Sprintf("signer-%d", j))}}})
				signers = append(signers, k.signer())
				verifiers = append(verifiers, k.verifier())
			}
			rep := map[string]any{"alg": k.alg.String(), "payload_len": ln, "external_len": len(ext)}
			c.Eval("same-alg/real/"+k.name, fmt.Sprint(ln), true)
			if err := m.Sign(r, ext, signers...); err != nil {
				c.Fail("C11/sign-refused", "signing with three signers of one algorithm failed: "+err.Error(), rep)
				continue
			}
			for j, sg := range m.Signatures {
				tbs, _ := refSigN(&m.Headers, &sg.Headers, ext, payload)
				if !refVerify(k.alg, k.pub, tbs, sg.Signature) {
					c.Fail("C11/signature-not-over-own-structure", fmt.Sprintf("signature %d is not a valid signature over that signer's RFC 9052 Sig_structure", j), rep)
				}
			}
			if err := m.Verify(ext, verifiers...); err != nil {
				c.Fail("C11/valid-refused", "a correctly signed COSE_Sign does not verify: "+err.Error(), rep)
			}
			// after a wire round trip (zero-length payloads included) the same verifiers accept, position by position
			if b, err := m.MarshalCBOR(); err == nil {
				var dm cose.SignMessage
				if err := dm.UnmarshalCBOR(b); err != nil {
					c.Fail("C11/valid-refused", "a correctly signed COSE_Sign cannot be parsed back: "+err.Error(), rep)
				} else if err := dm.Verify(ext, verifiers...); err != nil {
					c.Fail("C11/valid-refused", "a correctly signed COSE_Sign does not verify after MarshalCBOR / UnmarshalCBOR: "+err.Error(), rep)
				}
			}
			// one signature replaced by the same integers in another form (halves padded / stripped alike, DER, one
			// extra octet, truncated), at every position: a single malformed signature fails the whole verification
			for j := 0; j < n; j++ {
				orig := m.Signatures[j].Signature
				half := len(orig) / 2
				variants := map[string][]byte{"truncated": orig[:len(orig)-1], "extra-octet": append(append([]byte{}, orig...), 0)}
				if k.alg == cose.AlgorithmES256 || k.alg == cose.AlgorithmES384 || k.alg == cose.AlgorithmES512 {
					variants["both-halves-padded-1"] = append(append(append([]byte{0}, orig[:half]...), 0), orig[half:]...)
					variants["both-halves-padded-2"] = append(append(append([]byte{0, 0}, orig[:half]...), 0, 0), orig[half:]...)
					variants["leading-zero"] = append([]byte{0}, orig...)
					variants["der"] = derRS(new(big.Int).SetBytes(orig[:half]), new(big.Int).SetBytes(orig[half:]))
				}
				for name, v := range variants {
					t := &cose.SignMessage{Headers: m.Headers, Payload: payload}
					for q, sg := range m.Signatures {
						cp := &cose.Signature{Headers: sg.Headers, Signature: sg.Signature}
						if q == j {
							cp.Signature = v
						}
						t.Signatures = append(t.Signatures, cp)
					}
					var verr error
					if p, _ := protect(func() { verr = t.Verify(ext, verifiers...) }); !p && verr == nil {
						c.Fail("C11/malformed-signature-accepted", fmt.Sprintf("COSE_Sign verified although signature %d was replaced by its %s form (%d octets instead of %d)", j, name, len(v), len(orig)), rep)
					}
				}
			}
			// a signer's alg removed from its protected header after signing (no external data): the signature is not
			// over that header any more and the layer names no algorithm - refused, and the header stays as it is
			if len(ext) == 0 {
				for j := 0; j < n; j++ {
					t := &cose.SignMessage{Headers: m.Headers, Payload: payload}
					for q, sg := range m.Signatures {
						cp := &cose.Signature{Headers: cloneHeaders(sg.Headers), Signature: sg.Signature}
						if q == j {
							delete(cp.Headers.Protected, cose.HeaderLabelAlgorithm)
						}
						t.Signatures = append(t.Signatures, cp)
					}
					verr := t.Verify(ext, verifiers...)
					_, still := t.Signatures[j].Headers.Protected[cose.HeaderLabelAlgorithm]
					if verr == nil || still {
						c.Fail("C11/tampered-accepted", fmt.Sprintf("signer %d's alg was removed from its protected header after signing: Verify returned %v, the header has an alg again: %v", j, verr, still), rep)
					}
				}
			}
			// RSASSA-PSS signatures by the right key over the right structure, but with another salt length than the
			// digest length (RFC 8230): not a valid PSnnn signature, at any position
			if rk, ok := k.priv.(*rsa.PrivateKey); ok {
				for j := 0; j < n; j++ {
					tbs, _ := refSigN(&m.Headers, &m.Signatures[j].Headers, ext, payload)
					h := algHash(k.alg)
					for _, salt := range []int{0, 20, h.Size() - 1, h.Size() + 1, rsa.PSSSaltLengthAuto} {
						odd, err := rsa.SignPSS(r, rk, h, digestOf(h, tbs), &rsa.PSSOptions{SaltLength: salt, Hash: h})
						if err != nil {
							continue
						}
						t := &cose.SignMessage{Headers: m.Headers, Payload: payload}
						for q, sg := range m.Signatures {
							cp := &cose.Signature{Headers: sg.Headers, Signature: sg.Signature}
							if q == j {
								cp.Signature = odd
							}
							t.Signatures = append(t.Signatures, cp)
						}
						if t.Verify(ext, verifiers...) == nil {
							c.Fail("C11/malformed-signature-accepted", fmt.Sprintf("COSE_Sign verified although signature %d is an RSASSA-PSS signature with salt length %d (digest length %d)", j, salt, h.Size()), rep)
						}
					}
				}
			}
			// signatures made by the standard library over the RFC structure are accepted
			m2 := &cose.SignMessage{Headers: m.Headers, Payload: payload}
			for j := 0; j < n; j++ {
				h := cloneHeaders(m.Signatures[j].Headers)
				tbs, _ := refSigN(&m.Headers, &h, ext, payload)
				m2.Signatures = append(m2.Signatures, &cose.Signature{Headers: h, Signature: refSign(r, k, tbs)})
			}
			if err := m2.Verify(ext, verifiers...); err != nil {
				c.Fail("C11/valid-refused", "a COSE_Sign signed by another implementation over the RFC structures does not verify: "+err.Error(), rep)
			}
			// one signer's protected header changed after signing: everything must fail, whichever position
			for j := 0; j < n; j++ {
				t := &cose.SignMessage{Headers: m.Headers, Payload: payload}
				for q, sg := range m.Signatures {
					cp := &cose.Signature{Headers: cloneHeaders(sg.Headers), Signature: sg.Signature}
					if q == j {
						cp.Headers.RawProtected = nil
						cp.Headers.Protected[int64(4)] = []byte("someone-else")
					}
					t.Signatures = append(t.Signatures, cp)
				}
				if err := t.Verify(ext, verifiers...); err == nil {
					c.Fail("C11/tampered-accepted", fmt.Sprintf("COSE_Sign verified although the protected header of signer %d was changed after signing", j), rep)
				}
			}
			// the same after the signed message has been encoded once (sent), with the change made to the object
			// that was encoded: body or any signer, every position
			for j := -1; j < n; j++ {
				t := &cose.SignMessage{Headers: cloneHeaders(m.Headers), Payload: payload}
				for _, sg := range m.Signatures {
					t.Signatures = append(t.Signatures, &cose.Signature{Headers: cloneHeaders(sg.Headers), Signature: sg.Signature})
				}
				if t.Verify(ext, verifiers...) != nil {
					continue
				}
				if _, err := t.MarshalCBOR(); err != nil {
					continue
				}
				for _, sgn := range t.Signatures {
					sgn.MarshalCBOR()
				}
				c.Eval("tamper-after-encoding", fmt.Sprint(n, j, k.alg), true)
				if j < 0 {
					if t.Headers.Protected == nil {
						t.Headers.Protected = cose.ProtectedHeader{}
					}
					t.Headers.Protected[int64(4)] = []byte("another-body-kid")
				} else {
					t.Signatures[j].Headers.Protected[int64(4)] = []byte("someone-else")
				}
				if err := t.Verify(ext, verifiers...); err == nil {
					c.Fail("C11/tampered-accepted", fmt.Sprintf("COSE_Sign verified although a protected header (position %d, -1 = body) was changed after the message had been signed and encoded", j), rep)
				}
			}
		}
	}
	c11MalformedVerifierKey(c, r)
	c11Positional(c, r)
	c11OneSignerManySlots(c, r)
	c11SharedVerifiers(c, r)
}

// c11MalformedVerifierKey: a verifier built from a malformed EdDSA public key (wrong length: NewVerifier looks at
// the Go type only) stands at one position, over a garbage signature: the whole verification must not succeed.
func c11MalformedVerifierKey(c *Collector, r *Rng) {
	keys := realKeySet(r)
	good := keys[0]
	for _, klen := range []int{0, 1, 31, 33, 64} {
		bad, err := cose.NewVerifier(cose.AlgorithmEdDSA, ed25519.PublicKey(r.Bytes(klen)))
		if err != nil {
			continue
		}
		for n := 1; n <= 3; n++ {
			for pos := 0; pos < n; pos++ {
				for _, decoded := range []bool{false, true} {
					m := &cose.SignMessage{Headers: cose.Headers{Protected: cose.ProtectedHeader{}}, Payload: []byte("payload")}
					var signers []cose.Signer
					var verifiers []cose.Verifier
					for j := 0; j < n; j++ {
						m.Signatures = append(m.Signatures, &cose.Signature{Headers: cose.Headers{Protected: cose.ProtectedHeader{cose.HeaderLabelAlgorithm: good.alg}}})
						signers = append(signers, good.signer())
						verifiers = append(verifiers, good.verifier())
					}
					if m.Sign(r, nil, signers...) != nil {
						continue
					}
					m.Signatures[pos] = &cose.Signature{Headers: cose.Headers{Protected: cose.ProtectedHeader{cose.HeaderLabelAlgorithm: cose.AlgorithmEdDSA}}, Signature: r.Bytes(64)}
					verifiers[pos] = bad
					if decoded {
						b, err := m.MarshalCBOR()
						if err != nil {
							continue
						}
						m = &cose.SignMessage{}
						if m.UnmarshalCBOR(b) != nil {
							continue
						}
					}
					var verr error
					panicked, _ := protect(func() { verr = m.Verify(nil, verifiers...) })
					c.Eval("malformed-verifier-key", fmt.Sprint(klen, n, pos, decoded), true)
					if !panicked && verr == nil {
						c.Fail("C11/garbage-accepted", fmt.Sprintf("COSE_Sign with %d signatures verified although signature %d is random bytes (its verifier holds a %d-byte EdDSA key)", n, pos, klen), map[string]any{"n": n, "position": pos, "key_len": klen, "decoded": decoded})
					}
				}
			}
		}
	}
}

// ---------- C20 ----------

type failingReader struct {
	n      int // bytes served before failing
	r      io.Reader
	done   int
	err    error // the error it fails with (errScripted when nil)
	failed bool  // an error was handed to the caller
}

func (f *failingReader) fail() error {
	f.failed = true
	if f.err != nil {
		return f.err
	}
	return errScripted
}

func (f *failingReader) Read(p []byte) (int, error) {
	if f.done >= f.n {
		return 0, f.fail()
	}
	k := len(p)
	if f.done+k > f.n {
		k = f.n - f.done
	}
	f.r.Read(p[:k])
	f.done += k
	if k < len(p) {
		return k, f.fail()
	}
	return k, nil
}

func runC20(c *Collector, r *Rng, thorough bool) {
	c.Rule = "every assignment of {ok, error, empty signature (nil / zero-length), signature bytes together with an error} to each signer of Sign1, Sign1Untagged, SignMessage.Sign (n <= 4 in thorough, <= 3 quick), Countersignature.Sign, Countersign0, SignHashEnvelope, and {ok, ErrVerification, other error} to each verifier; entropy sources that fail or short-read with real ECDSA / RSA-PSS / Ed25519 keys; after a failure: error returned, no bytes, failing slot empty, MarshalCBOR refuses; no encoder or Sign helper may return an empty signature; compared with the Coq model; exhaustive over the fault vectors; non-trivial = a key was invoked; distinct by op term"
	c.Exhaustive = true
	type outcome struct {
		name string
		kind SigOut
		sig  []byte
	}
	outs := []outcome{{"ok", SOk, []byte{1, 2, 3}}, {"err", SErr, nil}, {"empty-nil", SOk, nil}, {"empty-nonnil", SOk, []byte{}}, {"bytes-and-err", SErrWith, []byte{9, 9}}}
	hdr := func(alg cose.Algorithm) cose.Headers {
		return cose.Headers{Protected: cose.ProtectedHeader{cose.HeaderLabelAlgorithm: alg}, Unprotected: cose.UnprotectedHeader{int64(4): []byte("kid")}}
	}
	bad := func(o outcome) bool { return o.kind != SOk }
	emptySig := func(o outcome) bool { return o.kind == SOk && len(o.sig) == 0 }
	// ---- single-signer structures ----
	for _, o := range outs {
		sgf := func() *spySigner { return &spySigner{alg: -7, kind: o.kind, sig: o.sig} }
		rep := map[string]any{"outcome": o.name}
		// Sign1Message.Sign + MarshalCBOR
		for _, tagged := range []bool{true, false} {
			m := &cose.Sign1Message{Headers: hdr(-7), Payload: []byte("p")}
			sg := sgf()
			op, obs, err, p := execSign1(m, nil, sg)
			if p {
				c.Fail("C20/panic", "Sign panicked", rep)
				continue
			}
			addCase(c, "sign1/"+o.name, op, obs, true)
			if bad(o) {
				if err == nil {
					c.Fail("C20/error-swallowed", "signer failed but Sign returned nil", rep)
				} else if !errors.Is(err, errScripted) {
					c.Fail("C20/error-replaced", fmt.Sprintf("the signer failed with %q but Sign returned %q", errScripted, err), rep)
				}
				if len(m.Signature) != 0 {
					c.Fail("C20/signature-stored-on-error", fmt.Sprintf("signer failed but Signature = %x was stored", m.Signature), rep)
				}
			}
			op2, obs2, out, merr, _ := execEncSign1(tagged, m)
			addCase(c, "sign1-then-marshal/"+o.name, op2, obs2, true)
			if (bad(o) || emptySig(o)) && merr == nil {
				c.Fail("C20/unsigned-message-encoded", fmt.Sprintf("message serialised to %x although it was not properly signed", out), rep)
			}
			if merr == nil {
				c20NoEmptySig(c, out, tagged, rep)
			}
			// helpers
			sg2 := sgf()
			op3, obs3, out3, herr, p := execHelperSign1(tagged, hdr(-7), []byte("p"), nil, sg2)
			if p {
				c.Fail("C20/panic", "Sign1 helper panicked", rep)
				continue
			}
			addCase(c, "helper/"+o.name, op3, obs3, true)
			if bad(o) && (herr == nil || out3 != nil) {
				c.Fail("C20/helper-returned-bytes", fmt.Sprintf("Sign1 helper returned bytes=%x err=%v for a failing signer", out3, herr), rep)
			} else if bad(o) && !errors.Is(herr, errScripted) {
				c.Fail("C20/error-replaced", fmt.Sprintf("the signer failed with %q but the Sign1 helper returned %q", errScripted, herr), rep)
			}
			if emptySig(o) && herr == nil {
				c.Fail("C20/helper-empty-signature", fmt.Sprintf("Sign1 helper returned a message with an empty signature: %x", out3), rep)
			}
			if herr == nil {
				c20NoEmptySig(c, out3, tagged, rep)
			}
		}
		// SignHashEnvelope
		{
			sg := sgf()
			op, obs, out, err, p := execSignHE(sg, hdr(-7), cose.HashEnvelopePayload{HashAlgorithm: cose.AlgorithmSHA256, HashValue: make([]byte, 32)})
			if p {
				c.Fail("C20/panic", "SignHashEnvelope panicked", rep)
			} else {
				addCase(c, "hashenvelope/"+o.name, op, obs, true)
				if (bad(o) || emptySig(o)) && (err == nil || out != nil) {
					c.Fail("C20/hashenvelope-returned-bytes", fmt.Sprintf("SignHashEnvelope returned bytes=%x err=%v", out, err), rep)
				} else if bad(o) && !errors.Is(err, errScripted) {
					c.Fail("C20/error-replaced", fmt.Sprintf("the signer failed with %q but SignHashEnvelope returned %q", errScripted, err), rep)
				}
			}
		}
		// Countersignature.Sign
		{
			parent := &cose.Sign1Message{Headers: hdr(-7), Payload: []byte("p"), Signature: []byte{1}}
			cs := &cose.Countersignature{Headers: hdr(-7)}
			sg := sgf()
			op, obs, err, p := execCsign(cs, sg, parentOf(parent, true), nil)
			if p {
				c.Fail("C20/panic", "Countersignature.Sign panicked", rep)
			} else {
				addCase(c, "countersign/"+o.name, op, obs, true)
				if bad(o) && (err == nil || len(cs.Signature) != 0) {
					c.Fail("C20/countersign-stored-on-error", fmt.Sprintf("countersigner failed: err=%v stored=%x", err, cs.Signature), rep)
				} else if bad(o) && !errors.Is(err, errScripted) {
					c.Fail("C20/error-replaced", fmt.Sprintf("the countersigner failed with %q but Countersignature.Sign returned %q", errScripted, err), rep)
				}
				op2, obs2, out, merr, _ := execEncSignature((*cose.Signature)(cs))
				addCase(c, "countersign-then-marshal/"+o.name, op2, obs2, true)
				if (bad(o) || emptySig(o)) && merr == nil {
					c.Fail("C20/unsigned-countersignature-encoded", fmt.Sprintf("countersignature serialised to %x although not properly signed", out), rep)
				}
			}
			if o.kind != SErrWith {
				sg0 := sgf()
				op, obs, out, err, p := execCsign0(sg0, parentOf(parent, false), nil)
				if p {
					c.Fail("C20/panic", "Countersign0 panicked", rep)
				} else {
					addCase(c, "countersign0/"+o.name, op, obs, true)
					if bad(o) && (err == nil || len(out) != 0) {
						c.Fail("C20/countersign0-bytes-on-error", fmt.Sprintf("Countersign0: err=%v bytes=%x", err, out), rep)
					}
				}
			}
		}
	}
	// ---- COSE_Sign: all fault vectors ----
	maxN := 3
	if thorough {
		maxN = 4
	}
	algs := []cose.Algorithm{-7, -35, -36, -8}
	for n := 1; n <= maxN; n++ {
		total := 1
		for j := 0; j < n; j++ {
			total *= len(outs)
		}
		for vec := 0; vec < total; vec++ {
			m := &cose.SignMessage{Headers: hdr(0), Payload: []byte("p")}
			delete(m.Headers.Protected, cose.HeaderLabelAlgorithm)
			var sgs []*spySigner
			var os []outcome
			v := vec
			for j := 0; j < n; j++ {
				o := outs[v%len(outs)]
				v /= len(outs)
				os = append(os, o)
				m.Signatures = append(m.Signatures, &cose.Signature{Headers: hdr(algs[j])})
				sgs = append(sgs, &spySigner{alg: algs[j], kind: o.kind, sig: o.sig})
			}
			op, obs, err, p := execSignMsg(m, nil, sgs)
			rep := map[string]any{"n": n, "vector": fmt.Sprint(os), "op": trunc(op, 400)}
			if p {
				c.Fail("C20/panic", "SignMessage.Sign panicked", rep)
				continue
			}
			addCase(c, fmt.Sprintf("signmsg/n=%d", n), op, obs, true)
			first := -1
			for j, o := range os {
				if bad(o) {
					first = j
					break
				}
			}
			if first >= 0 {
				if err == nil {
					c.Fail("C20/error-swallowed", fmt.Sprintf("signer %d failed but SignMessage.Sign returned nil", first), rep)
				}
				if len(m.Signatures[first].Signature) != 0 {
					c.Fail("C20/signature-stored-on-error", fmt.Sprintf("failing slot %d holds %x", first, m.Signatures[first].Signature), rep)
				}
				for j := first + 1; j < n; j++ {
					if len(sgs[j].calls) > 0 || len(m.Signatures[j].Signature) != 0 {
						c.Fail("C20/continued-after-error", fmt.Sprintf("signer %d was used after signer %d failed", j, first), rep)
					}
				}
			}
			anyEmpty := false
			for _, s := range m.Signatures {
				if len(s.Signature) == 0 {
					anyEmpty = true
				}
			}
			op2, obs2, out, merr, _ := execEncSignMsg(m)
			addCase(c, fmt.Sprintf("signmsg-then-marshal/n=%d", n), op2, obs2, true)
			if anyEmpty && merr == nil {
				c.Fail("C20/half-signed-message-encoded", fmt.Sprintf("half-signed COSE_Sign serialised to %x", out), rep)
			}
		}
	}
	// ---- verifier errors are propagated ----
	for _, verr := range []error{nil, cose.ErrVerification, errScripted} {
		m := &cose.Sign1Message{Headers: hdr(-7), Payload: []byte("p"), Signature: []byte{1}}
		vf := &spyVerifier{alg: -7, err: verr}
		op, obs, err, _ := execVerify1(m, nil, vf)
		addCase(c, "verify1/propagation", op, obs, true)
		if (err == nil) != (verr == nil) || (verr != nil && !errors.Is(err, verr)) {
			c.Fail("C20/verifier-error-not-propagated", fmt.Sprintf("verifier returned %v, Verify returned %v", verr, err), map[string]any{"op": op})
		}
		cs := &cose.Countersignature{Headers: hdr(-7), Signature: []byte{2}}
		vf2 := &spyVerifier{alg: -7, err: verr}
		op, obs, err, _ = execCverify(cs, vf2, parentOf(m, true), nil)
		addCase(c, "cverify/propagation", op, obs, true)
		if (err == nil) != (verr == nil) {
			c.Fail("C20/verifier-error-not-propagated", "countersignature verifier error lost", map[string]any{"op": op})
		}
		vf3 := &spyVerifier{alg: -7, err: verr}
		op, obs, err, _ = execCverify0(vf3, parentOf(m, true), nil, []byte{3})
		addCase(c, "cverify0/propagation", op, obs, true)
		if (err == nil) != (verr == nil) {
			c.Fail("C20/verifier-error-not-propagated", "VerifyCountersign0 lost the verifier error", map[string]any{"op": op})
		}
		sm := &cose.SignMessage{Headers: hdr(0), Payload: []byte("p"), Signatures: []*cose.Signature{{Headers: hdr(-7), Signature: []byte{1}}, {Headers: hdr(-35), Signature: []byte{2}}}}
		delete(sm.Headers.Protected, cose.HeaderLabelAlgorithm)
		op, obs, err, _ = execVerifyMsg(sm, nil, []*spyVerifier{{alg: -7}, {alg: -35, err: verr}})
		addCase(c, "verifymsg/propagation", op, obs, true)
		if (err == nil) != (verr == nil) {
			c.Fail("C20/verifier-error-not-propagated", "SignMessage.Verify lost the verifier error", map[string]any{"op": op})
		}
	}
	// ---- countersignatures, full and abbreviated, over every kind of parent given by pointer and by value: the
	// verifier's error - whatever it is - comes back (errors.Is), never nil ----
	for _, pv := range genParents(r, true) {
		for _, ptr := range []bool{true, false} {
			for _, verr := range []error{cose.ErrVerification, errScripted, cose.ErrUnavailableHashFunc, fmt.Errorf("kms: %w", errScripted)} {
				par := parentOf(pv, ptr)
				cs := &cose.Countersignature{Headers: hdr(cose.AlgorithmES256), Signature: []byte{1, 2, 3}}
				vf := &spyVerifier{alg: -7, err: verr}
				var e1, e0 error
				p1, _ := protect(func() { e1 = cs.Verify(vf, par.val, nil) })
				vf0 := &spyVerifier{alg: -7, err: verr}
				p0, _ := protect(func() { e0 = cose.VerifyCountersign0(vf0, par.val, nil, []byte{1, 2, 3}) })
				c.Eval(fmt.Sprintf("countersignature-verifier-error/%T", par.val), fmt.Sprint(verr), true)
				rep := map[string]any{"parent": fmt.Sprintf("%T", par.val), "verifier_error": fmt.Sprint(verr)}
				if !p1 && len(vf.calls) == 1 && !errors.Is(e1, verr) {
					c.Fail("C20/verifier-error-not-propagated", fmt.Sprintf("Countersignature.Verify over a %T returned %v although the verifier returned %q", par.val, e1, verr), rep)
				}
				if !p0 && len(vf0.calls) == 1 && !errors.Is(e0, verr) {
					c.Fail("C20/verifier-error-not-propagated", fmt.Sprintf("VerifyCountersign0 over a %T returned %v although the verifier returned %q", par.val, e0, verr), rep)
				}
			}
		}
	}
	// ---- COSE_Sign: every assignment of {succeeds, ErrVerification, other error} to the verifiers of n <= 4 signers:
	// the first error (by position) is what Verify returns, nothing after it is consulted, success only if all succeed ----
	vopts := []error{nil, cose.ErrVerification, errScripted}
	valgs := []cose.Algorithm{-7, -35, -36, -8}
	for n := 1; n <= 4; n++ {
		total := 1
		for j := 0; j < n; j++ {
			total *= len(vopts)
		}
		for code := 0; code < total; code++ {
			for _, identical := range []bool{false, true} { // identical: every slot holds the same COSE_Signature, byte for byte
				sm := &cose.SignMessage{Headers: hdr(0), Payload: []byte("p")}
				delete(sm.Headers.Protected, cose.HeaderLabelAlgorithm)
				var vfs []*spyVerifier
				first := -1
				for j, cd := 0, code; j < n; j, cd = j+1, cd/len(vopts) {
					if identical {
						sm.Signatures = append(sm.Signatures, &cose.Signature{Headers: hdr(valgs[0]), Signature: []byte{7, 7}})
						vfs = append(vfs, &spyVerifier{alg: valgs[0], err: vopts[cd%len(vopts)]})
					} else {
						sm.Signatures = append(sm.Signatures, &cose.Signature{Headers: hdr(valgs[j]), Signature: []byte{byte(j + 1)}})
						vfs = append(vfs, &spyVerifier{alg: valgs[j], err: vopts[cd%len(vopts)]})
					}
					if first < 0 && vopts[cd%len(vopts)] != nil {
						first = j
					}
				}
				op, obs, err, p := execVerifyMsg(sm, nil, vfs)
				if p {
					c.Fail("C20/panic", "SignMessage.Verify panicked", map[string]any{"op": trunc(op, 500)})
					continue
				}
				addCase(c, fmt.Sprintf("verifymsg/fault-vector/n=%d", n), op, obs, true)
				rep := map[string]any{"op": trunc(op, 900), "n": n, "first_failing": first}
				if first < 0 {
					if err != nil {
						c.Fail("C20/verifier-success-not-propagated", "every verifier succeeded but SignMessage.Verify returned "+err.Error(), rep)
					}
					continue
				}
				if err == nil || !errors.Is(err, vfs[first].err) {
					c.Fail("C20/verifier-error-not-propagated", fmt.Sprintf("verifier %d of %d returned %v, SignMessage.Verify returned %v (identical slots: %v)", first, n, vfs[first].err, err, identical), rep)
				}
			}
		}
	}
	// ---- VerifyHashEnvelope: the verifier's answer decides, whatever digest algorithm the envelope names ----
	for _, ha := range []int64{-16, -43, -44, -45, -15, 5, -65540} {
		for _, verr := range []error{nil, cose.ErrVerification, errScripted} {
			size := map[int64]int{-16: 32, -43: 48, -44: 64}[ha]
			if size == 0 {
				size = 32
			}
			env := wTag(18, -1, wArr(-1, wBstr(wMap(-1, wInt(1, -1), wInt(-7, -1), wInt(258, -1), wInt(ha, -1)).Ser(), -1), wMap(-1), wBstr(make([]byte, size), -1), wBstr([]byte{1, 2, 3}, -1))).Ser()
			vf := &spyVerifier{alg: -7, err: verr}
			op, obs, msg, err, p := execVerifyHE(vf, env)
			if p {
				c.Fail("C20/panic", "VerifyHashEnvelope panicked", map[string]any{"data": hx(env)})
				continue
			}
			addCase(c, "verify-hash-envelope/propagation", op, obs, true)
			if verr != nil && (err == nil || msg != nil) {
				c.Fail("C20/verifier-error-not-propagated", fmt.Sprintf("the verifier returned %v (it was consulted %d times), VerifyHashEnvelope returned a message for digest algorithm %d", verr, len(vf.calls), ha), map[string]any{"data": hx(env)})
			} else if verr == nil && err == nil && len(vf.calls) != 1 {
				c.Fail("C20/verifier-error-not-propagated", fmt.Sprintf("VerifyHashEnvelope returned a message for digest algorithm %d without consulting the verifier", ha), map[string]any{"data": hx(env)})
			}
		}
	}
	// ---- the fault below the cose.Signer: a crypto.Signer (HSM / KMS adapter) that returns no bytes and no error,
	// or an error, wrapped by the built-in RSA-PSS / ECDSA / Ed25519 signers ----
	{
		kr0 := NewRng(4242)
		ek0, _ := ecdsa.GenerateKey(elliptic.P256(), kr0)
		rk0 := realKeySet(r)[4].priv.(*rsa.PrivateKey)
		edPub0, _, _ := ed25519.GenerateKey(kr0)
		for _, kc := range []struct {
			name string
			alg  cose.Algorithm
			pub  crypto.PublicKey
		}{{"PS256", cose.AlgorithmPS256, &rk0.PublicKey}, {"PS512", cose.AlgorithmPS512, &rk0.PublicKey}, {"ES256", cose.AlgorithmES256, &ek0.PublicKey}, {"EdDSA", cose.AlgorithmEdDSA, edPub0}} {
			for _, mode := range []string{"nil", "empty", "error", "bytes-and-error"} {
				st := &faultyCryptoSigner{pub: kc.pub, mode: mode}
				signer, err := cose.NewSigner(kc.alg, st)
				if err != nil {
					continue
				}
				rep := map[string]any{"alg": kc.name, "crypto_signer_returns": mode}
				c.Eval("crypto-signer-fault/"+kc.name, mode, true)
				m := &cose.Sign1Message{Headers: hdr(kc.alg), Payload: []byte("p")}
				var serr error
				if p, _ := protect(func() { serr = m.Sign(r, nil, signer) }); p {
					c.Fail("C20/panic", "Sign panicked on a crypto.Signer fault", rep)
					continue
				}
				enc, merr := m.MarshalCBOR()
				if serr == nil && merr == nil {
					c.Fail("C20/crypto-signer-fault-yields-message", fmt.Sprintf("the key returned %s but Sign returned nil and the message serialises: %x", mode, trimTo(enc, 60)), rep)
				}
				out, herr := cose.Sign1(r, signer, hdr(kc.alg), []byte("p"), nil)
				if herr == nil || out != nil {
					c.Fail("C20/crypto-signer-fault-yields-message", fmt.Sprintf("the key returned %s but Sign1 returned bytes=%x err=%v", mode, trimTo(out, 60), herr), rep)
				}
				s0, cerr := cose.Countersign0(r, signer, &cose.Sign1Message{Headers: hdr(kc.alg), Payload: []byte("p"), Signature: []byte{1}}, nil)
				if cerr == nil && len(s0) > 0 {
					c.Fail("C20/crypto-signer-fault-yields-message", fmt.Sprintf("the key returned %s but Countersign0 returned a signature %x", mode, trimTo(s0, 40)), rep)
				}
			}
		}
	}
	// ---- no encoder emits an empty signature slot, whatever else the object carries: typed buckets, retained raw
	// buckets (a decoded object whose signature was cleared for signing again), or both; nil and empty slots ----
	for _, rawMode := range []string{"typed", "raw-both", "raw-protected-only", "raw-and-typed"} {
		for _, empty := range [][]byte{nil, {}} {
			mkH := func() cose.Headers {
				h := cose.Headers{}
				if rawMode != "raw-both" && rawMode != "raw-protected-only" {
					h.Protected = cose.ProtectedHeader{cose.HeaderLabelAlgorithm: cose.AlgorithmES256}
					h.Unprotected = cose.UnprotectedHeader{int64(4): []byte("11")}
				}
				if rawMode != "typed" {
					h.RawProtected = []byte{0x43, 0xa1, 0x01, 0x26}
					if rawMode != "raw-protected-only" {
						h.RawUnprotected = []byte{0xa1, 0x04, 0x42, 0x31, 0x31}
					}
				}
				return h
			}
			rep := map[string]any{"buckets": rawMode, "slot": nilOrHex(empty)}
			type enc struct {
				name string
				f    func() ([]byte, error)
			}
			cs := &cose.Countersignature{Headers: mkH(), Signature: empty}
			parentWith := func(v any) func() ([]byte, error) {
				return func() ([]byte, error) {
					return (&cose.Sign1Message{Headers: cose.Headers{Protected: cose.ProtectedHeader{cose.HeaderLabelAlgorithm: cose.AlgorithmES256}, Unprotected: cose.UnprotectedHeader{int64(11): v}}, Payload: []byte("p"), Signature: []byte{1}}).MarshalCBOR()
				}
			}
			for _, e := range []enc{
				{"Sign1Message.MarshalCBOR", (&cose.Sign1Message{Headers: mkH(), Payload: []byte("p"), Signature: empty}).MarshalCBOR},
				{"UntaggedSign1Message.MarshalCBOR", (&cose.UntaggedSign1Message{Headers: mkH(), Payload: []byte("p"), Signature: empty}).MarshalCBOR},
				{"Signature.MarshalCBOR", (&cose.Signature{Headers: mkH(), Signature: empty}).MarshalCBOR},
				{"Countersignature.MarshalCBOR", cs.MarshalCBOR},
				{"SignMessage.MarshalCBOR", (&cose.SignMessage{Headers: mkH(), Payload: []byte("p"), Signatures: []*cose.Signature{{Headers: mkH(), Signature: []byte{1}}, {Headers: mkH(), Signature: empty}}}).MarshalCBOR},
				{"parent carrying the countersignature", parentWith(cs)},
				{"parent carrying it in a list", parentWith([]*cose.Countersignature{{Headers: mkH(), Signature: []byte{1}}, cs})},
			} {
				var out []byte
				var err error
				if p, _ := protect(func() { out, err = e.f() }); p {
					c.Fail("C20/panic", e.name+" panicked on an empty signature slot", rep)
					continue
				}
				c.Eval("empty-slot-encoders/"+rawMode, e.name+nilOrHex(empty), true)
				if err == nil {
					c.Fail("C20/empty-signature-emitted", fmt.Sprintf("%s serialised an object whose signature slot is %s: %x", e.name, nilOrHex(empty), out), rep)
				}
			}
		}
	}
	// ---- a signer that is also a Verifier (a key handle offering both operations): when Sign reports an error,
	// whatever its cause, the message holds no signature and cannot be serialised ----
	for _, verr := range []error{nil, cose.ErrVerification, errScripted} {
		for _, tagged := range []bool{true, false} {
			sv := &spySignerVerifier{spySigner: spySigner{alg: -7, kind: SOk, sig: bytes.Repeat([]byte{7}, 64)}, verr: verr}
			m := &cose.Sign1Message{Headers: hdr(-7), Payload: []byte("p")}
			var serr error
			if tagged {
				serr = m.Sign(nil, nil, sv)
			} else {
				serr = (*cose.UntaggedSign1Message)(m).Sign(nil, nil, sv)
			}
			out, merr := m.MarshalCBOR()
			c.Eval("signer-that-also-verifies", fmt.Sprint(verr, tagged), true)
			rep := map[string]any{"its Verify returns": fmt.Sprint(verr), "tagged": tagged}
			if serr != nil && (len(m.Signature) != 0 || merr == nil) {
				c.Fail("C20/signature-stored-on-error", fmt.Sprintf("Sign returned %q, yet the message holds the signature %x and serialises to %x", serr, trimTo(m.Signature, 16), trimTo(out, 40)), rep)
			}
			sm := &cose.SignMessage{Headers: cose.Headers{}, Payload: []byte("p"), Signatures: []*cose.Signature{{Headers: hdr(-7)}}}
			if e := sm.Sign(nil, nil, sv); e != nil && len(sm.Signatures[0].Signature) != 0 {
				c.Fail("C20/signature-stored-on-error", "SignMessage.Sign returned an error, yet the slot holds a signature", rep)
			}
			cs := &cose.Countersignature{Headers: hdr(-7)}
			if e := cs.Sign(nil, sv, &cose.Sign1Message{Headers: hdr(-7), Payload: []byte("p"), Signature: []byte{1}}, nil); e != nil && len(cs.Signature) != 0 {
				c.Fail("C20/countersign-stored-on-error", "Countersignature.Sign returned an error, yet the slot holds a signature", rep)
			}
		}
	}
	// ---- a key (HSM / KMS adapter around a real key) that fails the first time it is asked and would succeed the
	// second time, and an entropy source whose first read fails: the failure is the caller's to see; one signing call
	// asks the key once ----
	{
		kr1 := NewRng(4343)
		rk1, _ := rsa.GenerateKey(kr1, 2048)
		ek1, _ := ecdsa.GenerateKey(elliptic.P256(), kr1)
		_, ed1, _ := ed25519.GenerateKey(kr1)
		for _, kc := range []struct {
			name string
			alg  cose.Algorithm
			key  crypto.Signer
		}{{"PS256", cose.AlgorithmPS256, rk1}, {"PS384", cose.AlgorithmPS384, rk1}, {"PS512", cose.AlgorithmPS512, rk1}, {"ES256", cose.AlgorithmES256, ek1}, {"EdDSA", cose.AlgorithmEdDSA, ed1}} {
			for _, how := range []string{"key-fails-once", "entropy-fails-once"} {
				fo := &failOnceSigner{real: kc.key, fail: how == "key-fails-once"}
				var signer cose.Signer
				var err error
				if how == "key-fails-once" {
					signer, err = cose.NewSigner(kc.alg, fo)
				} else {
					signer, err = cose.NewSigner(kc.alg, kc.key)
				}
				if err != nil {
					continue
				}
				rep := map[string]any{"alg": kc.name, "fault": how}
				entropy := func() io.Reader {
					if how == "entropy-fails-once" {
						return &failOnceReader{r: r}
					}
					return r
				}
				calls := []struct {
					name string
					run  func() (bool, error) // produced something usable?, error
				}{
					{"Sign1Message.Sign", func() (bool, error) {
						m := &cose.Sign1Message{Headers: hdr(kc.alg), Payload: []byte("p")}
						e := m.Sign(entropy(), nil, signer)
						_, me := m.MarshalCBOR()
						return len(m.Signature) > 0 || me == nil, e
					}},
					{"Sign1", func() (bool, error) {
						out, e := cose.Sign1(entropy(), signer, hdr(kc.alg), []byte("p"), nil)
						return out != nil, e
					}},
					{"SignMessage.Sign", func() (bool, error) {
						sm := &cose.SignMessage{Headers: cose.Headers{}, Payload: []byte("p"), Signatures: []*cose.Signature{{Headers: hdr(kc.alg)}}}
						e := sm.Sign(entropy(), nil, signer)
						_, me := sm.MarshalCBOR()
						return len(sm.Signatures[0].Signature) > 0 || me == nil, e
					}},
					{"Countersignature.Sign", func() (bool, error) {
						cs := &cose.Countersignature{Headers: hdr(kc.alg)}
						e := cs.Sign(entropy(), signer, &cose.Sign1Message{Headers: hdr(kc.alg), Payload: []byte("p"), Signature: []byte{1}}, nil)
						return len(cs.Signature) > 0, e
					}},
					{"Countersign0", func() (bool, error) {
						out, e := cose.Countersign0(entropy(), signer, &cose.Sign1Message{Headers: hdr(kc.alg), Payload: []byte("p"), Signature: []byte{1}}, nil)
						return len(out) > 0, e
					}},
					{"SignHashEnvelope", func() (bool, error) {
						out, e := cose.SignHashEnvelope(entropy(), signer, hdr(kc.alg), cose.HashEnvelopePayload{HashAlgorithm: cose.AlgorithmSHA256, HashValue: make([]byte, 32)})
						return out != nil, e
					}},
				}
				for _, cl := range calls {
					fo.calls = 0
					var usable bool
					var cerr error
					if p, _ := protect(func() { usable, cerr = cl.run() }); p {
						c.Fail("C20/panic", cl.name+" panicked on a key that fails once", rep)
						continue
					}
					if how == "entropy-fails-once" && (kc.name == "EdDSA") {
						continue // Ed25519 signing is deterministic: the entropy source is not read
					}
					c.Eval("fails-once/"+how+"/"+kc.name, cl.name, true)
					if how == "key-fails-once" {
						if cerr == nil || usable {
							c.Fail("C20/first-failure-swallowed", fmt.Sprintf("%s: the key failed when it was first asked, the call returned err=%v and a usable result=%v (the key was asked %d times)", cl.name, cerr, usable, fo.calls), rep)
						} else if fo.calls != 1 {
							c.Fail("C20/key-asked-again-after-failure", fmt.Sprintf("%s: the key was asked %d times in one signing call after it had failed", cl.name, fo.calls), rep)
						}
					} else if (cerr == nil) == (!usable) {
						c.Fail("C20/first-failure-swallowed", fmt.Sprintf("%s: inconsistent result with an entropy source that fails once: err=%v usable=%v", cl.name, cerr, usable), rep)
					}
				}
			}
		}
	}
	// ---- a key that works and is then withdrawn (revoked in the HSM, session expired): every request made afterwards
	// fails - also a request to sign the very bytes it signed a moment ago; nothing signed earlier stands in ----
	{
		kr2 := NewRng(4344)
		ek2, _ := ecdsa.GenerateKey(elliptic.P256(), kr2)
		_, ed2, _ := ed25519.GenerateKey(kr2)
		rk2, _ := realKeySet(r)[4].priv.(*rsa.PrivateKey)
		for _, kc := range []struct {
			name string
			alg  cose.Algorithm
			key  crypto.Signer
		}{{"PS256", cose.AlgorithmPS256, rk2}, {"ES256", cose.AlgorithmES256, ek2}, {"EdDSA", cose.AlgorithmEdDSA, ed2}} {
			if kc.key == nil || (kc.name == "PS256" && rk2 == nil) {
				continue
			}
			rv := &revocableSigner{real: kc.key}
			signer, err := cose.NewSigner(kc.alg, rv)
			if err != nil {
				continue
			}
			rep := map[string]any{"alg": kc.name}
			calls := []struct {
				name string
				run  func() (bool, error)
			}{
				{"Sign1Message.Sign", func() (bool, error) {
					m := &cose.Sign1Message{Headers: hdr(kc.alg), Payload: []byte("p")}
					e := m.Sign(r, nil, signer)
					_, me := m.MarshalCBOR()
					return len(m.Signature) > 0 || me == nil, e
				}},
				{"Sign1", func() (bool, error) {
					out, e := cose.Sign1(r, signer, hdr(kc.alg), []byte("p"), nil)
					return out != nil, e
				}},
				{"SignMessage.Sign", func() (bool, error) {
					sm := &cose.SignMessage{Headers: cose.Headers{}, Payload: []byte("p"), Signatures: []*cose.Signature{{Headers: hdr(kc.alg)}}}
					e := sm.Sign(r, nil, signer)
					_, me := sm.MarshalCBOR()
					return len(sm.Signatures[0].Signature) > 0 || me == nil, e
				}},
				{"Countersign0", func() (bool, error) {
					out, e := cose.Countersign0(r, signer, &cose.Sign1Message{Headers: hdr(kc.alg), Payload: []byte("p"), Signature: []byte{1}}, nil)
					return len(out) > 0, e
				}},
				{"SignHashEnvelope", func() (bool, error) {
					out, e := cose.SignHashEnvelope(r, signer, hdr(kc.alg), cose.HashEnvelopePayload{HashAlgorithm: cose.AlgorithmSHA256, HashValue: make([]byte, 32)})
					return out != nil, e
				}},
				{"Signer.Sign", func() (bool, error) {
					out, e := signer.Sign(r, []byte("the same content"))
					return len(out) > 0, e
				}},
			}
			for _, cl := range calls {
				rv.revoked = false
				if usable, e := cl.run(); e != nil || !usable {
					continue
				}
				rv.revoked = true
				rv.calls = 0
				var usable bool
				var cerr error
				if p, _ := protect(func() { usable, cerr = cl.run() }); p {
					c.Fail("C20/panic", cl.name+" panicked on a key that was withdrawn", rep)
					continue
				}
				c.Eval("withdrawn-key/"+kc.name, cl.name, true)
				if cerr == nil || usable {
					c.Fail("C20/signer-error-swallowed", fmt.Sprintf("%s: the key refuses every request since it was withdrawn; asked to sign the same content as a moment before, the call returned err=%v and a usable result=%v (the key was asked %d times)", cl.name, cerr, usable, rv.calls), rep)
				} else if !errors.Is(cerr, errScripted) {
					c.Fail("C20/signer-error-replaced", fmt.Sprintf("%s: the key's error was not returned: %v", cl.name, cerr), rep)
				}
			}
		}
	}
	// ---- keys behind an opaque crypto.Signer that read the entropy source they are handed (a hedged-EdDSA token, an
	// ECDSA or RSA module that draws its nonce / salt from the caller's source): a source that fails, is dry, or is not
	// handed over at all makes the signing call fail with the source's error, for every algorithm family ----
	{
		kr3 := NewRng(4345)
		ek3, _ := ecdsa.GenerateKey(elliptic.P256(), kr3)
		_, ed3, _ := ed25519.GenerateKey(kr3)
		rk3, _ := realKeySet(r)[4].priv.(*rsa.PrivateKey)
		for _, kc := range []struct {
			name string
			alg  cose.Algorithm
			key  crypto.Signer
		}{{"EdDSA", cose.AlgorithmEdDSA, ed3}, {"ES256", cose.AlgorithmES256, ek3}, {"PS256", cose.AlgorithmPS256, rk3}} {
			if kc.name == "PS256" && rk3 == nil {
				continue
			}
			for _, src := range []string{"failing", "dry"} {
				ek := &entropyReadingSigner{real: kc.key}
				signer, err := cose.NewSigner(kc.alg, ek)
				if err != nil {
					continue
				}
				entropy := func() io.Reader {
					if src == "failing" {
						return &failingReader{n: 0, r: r, err: errScripted}
					}
					return bytes.NewReader(nil)
				}
				rep := map[string]any{"alg": kc.name, "source": src}
				for _, cl := range []struct {
					name string
					run  func() (bool, error)
				}{
					{"Sign1Message.Sign", func() (bool, error) {
						m := &cose.Sign1Message{Headers: hdr(kc.alg), Payload: []byte("p")}
						e := m.Sign(entropy(), nil, signer)
						_, me := m.MarshalCBOR()
						return len(m.Signature) > 0 || me == nil, e
					}},
					{"Sign1", func() (bool, error) {
						out, e := cose.Sign1(entropy(), signer, hdr(kc.alg), []byte("p"), nil)
						return out != nil, e
					}},
					{"SignMessage.Sign", func() (bool, error) {
						sm := &cose.SignMessage{Headers: cose.Headers{}, Payload: []byte("p"), Signatures: []*cose.Signature{{Headers: hdr(kc.alg)}}}
						e := sm.Sign(entropy(), nil, signer)
						_, me := sm.MarshalCBOR()
						return len(sm.Signatures[0].Signature) > 0 || me == nil, e
					}},
					{"Countersignature.Sign", func() (bool, error) {
						cs := &cose.Countersignature{Headers: hdr(kc.alg)}
						e := cs.Sign(entropy(), signer, &cose.Sign1Message{Headers: hdr(kc.alg), Payload: []byte("p"), Signature: []byte{1}}, nil)
						return len(cs.Signature) > 0, e
					}},
					{"Countersign0", func() (bool, error) {
						out, e := cose.Countersign0(entropy(), signer, &cose.Sign1Message{Headers: hdr(kc.alg), Payload: []byte("p"), Signature: []byte{1}}, nil)
						return len(out) > 0, e
					}},
					{"SignHashEnvelope", func() (bool, error) {
						out, e := cose.SignHashEnvelope(entropy(), signer, hdr(kc.alg), cose.HashEnvelopePayload{HashAlgorithm: cose.AlgorithmSHA256, HashValue: make([]byte, 32)})
						return out != nil, e
					}},
				} {
					ek.sawNil, ek.calls = false, 0
					var usable bool
					var cerr error
					if p, _ := protect(func() { usable, cerr = cl.run() }); p {
						c.Fail("C20/panic", cl.name+" panicked with a key that reads the entropy source", rep)
						continue
					}
					c.Eval("entropy-reading-key/"+kc.name+"/"+src, cl.name, true)
					if cerr == nil || usable {
						c.Fail("C20/entropy-error-swallowed", fmt.Sprintf("%s with a key that reads the caller's entropy source (%s): the call returned err=%v and a usable result=%v; the key was handed no source at all=%v", cl.name, src, cerr, usable, ek.sawNil), rep)
					}
				}
			}
		}
	}
	// ---- entropy failures with real keys ----
	kr := NewRng(99)
	ek, _ := ecdsa.GenerateKey(elliptic.P256(), kr)
	rk := realKeySet(r)[4].priv.(*rsa.PrivateKey)
	_, edk, _ := ed25519.GenerateKey(kr)
	type rkey struct {
		name string
		alg  cose.Algorithm
		key  interface {
			Public() any
		}
	}
	for _, budget := range []int{0, 1, 7, 16, 31, 32, 33, 64, 1 << 20} {
		for _, kk := range []struct {
			name string
			alg  cose.Algorithm
			sg   func() (cose.Signer, error)
		}{
			{"ES256", cose.AlgorithmES256, func() (cose.Signer, error) { return cose.NewSigner(cose.AlgorithmES256, ek) }},
			{"PS256", cose.AlgorithmPS256, func() (cose.Signer, error) { return cose.NewSigner(cose.AlgorithmPS256, rk) }},
			{"EdDSA", cose.AlgorithmEdDSA, func() (cose.Signer, error) { return cose.NewSigner(cose.AlgorithmEdDSA, edk) }},
		} {
			signer, err := kk.sg()
			if err != nil {
				panic(err)
			}
			for _, ferr := range []error{errScripted, io.EOF, io.ErrUnexpectedEOF} {
				rd := &failingReader{n: budget, r: r, err: ferr}
				m := &cose.Sign1Message{Headers: hdr(kk.alg), Payload: []byte("p")}
				var serr error
				p, _ := protect(func() { serr = m.Sign(rd, nil, signer) })
				rep := map[string]any{"alg": kk.name, "entropy_bytes_before_failure": budget, "entropy_error": ferr.Error()}
				c.Eval("entropy/"+kk.name+"/"+ferr.Error(), fmt.Sprint(budget), true)
				// control: does this platform's standard library itself report an entropy source that fails at once?
				// (newer Go releases ignore the reader for some primitives; then there is nothing to propagate)
				propagates := false
				switch kk.name {
				case "ES256":
					_, e := ecdsa.SignASN1(&failingReader{n: 0, r: r, err: ferr}, ek, make([]byte, 32))
					propagates = e != nil
				case "PS256":
					_, e := rsa.SignPSS(&failingReader{n: 0, r: r, err: ferr}, rk, crypto.SHA256, make([]byte, 32), &rsa.PSSOptions{SaltLength: rsa.PSSSaltLengthEqualsHash})
					propagates = e != nil
				}
				if !propagates {
					rd.failed = false
				}
				if !p && rd.failed && serr == nil {
					c.Fail("C20/entropy-error-swallowed", "the entropy source returned an error during Sign but Sign returned nil", rep)
				}
				if p {
					c.Fail("C20/panic", "Sign panicked on a failing entropy source", rep)
					continue
				}
				if serr != nil && len(m.Signature) != 0 {
					c.Fail("C20/signature-stored-on-entropy-error", "entropy source failed but a signature was stored", rep)
				}
				if serr == nil {
					v, _ := cose.NewVerifier(kk.alg, signer2pub(ek, rk, edk, kk.name))
					if err := m.Verify(nil, v); err != nil {
						c.Fail("C20/bad-signature-after-short-entropy", "Sign returned nil with a short entropy source but the signature does not verify", rep)
					}
				}
				hrd := &failingReader{n: budget, r: r, err: ferr}
				out, herr := cose.Sign1(hrd, signer, hdr(kk.alg), []byte("p"), nil)
				if herr != nil && out != nil {
					c.Fail("C20/helper-returned-bytes", "Sign1 returned bytes together with an entropy error", rep)
				}
				if propagates && hrd.failed && herr == nil {
					c.Fail("C20/entropy-error-swallowed", "the entropy source returned an error during Sign1 but Sign1 returned a message", rep)
				}
			}
		}
	}
}

func signer2pub(ek *ecdsa.PrivateKey, rk *rsa.PrivateKey, edk ed25519.PrivateKey, name string) any {
	switch name {
	case "ES256":
		return &ek.PublicKey
	case "PS256":
		return &rk.PublicKey
	}
	return edk.Public()
}

// c20NoEmptySig: an emitted COSE_Sign1 must carry a non-empty signature
func c20NoEmptySig(c *Collector, out []byte, tagged bool, rep map[string]any) {
	w, err := refParseFull(out)
	if err != nil {
		return
	}
	body := w
	if tagged {
		body = w.Kids[0]
	}
	if len(body.Kids) == 4 && (body.Kids[3].Maj != 2 || len(body.Kids[3].Str) == 0) {
		c.Fail("C20/empty-signature-emitted", fmt.Sprintf("encoder emitted a message with an empty signature: %x", out), rep)
	}
}

// slowSigner yields the processor before it reads the content it was handed.
type slowSigner struct {
	alg  cose.Algorithm
	seen []byte
}

func (s *slowSigner) Algorithm() cose.Algorithm { return s.alg }
func (s *slowSigner) Sign(_ io.Reader, content []byte) ([]byte, error) {
	for i := 0; i < 50; i++ {
		runtime.Gosched()
	}
	s.seen = append([]byte{}, content...)
	return []byte{1, 2, 3}, nil
}

// spySignerVerifier: a recording signer that also implements cose.Verifier
type spySignerVerifier struct {
	spySigner
	verr error
}

func (s *spySignerVerifier) Verify(content, sig []byte) error { return s.verr }

// failOnceSigner: a crypto.Signer around a real key whose odd-numbered Sign calls fail
type failOnceSigner struct {
	real  crypto.Signer
	fail  bool
	calls int
}

func (f *failOnceSigner) Public() crypto.PublicKey { return f.real.Public() }
func (f *failOnceSigner) Sign(rnd io.Reader, digest []byte, opts crypto.SignerOpts) ([]byte, error) {
	f.calls++
	if f.fail && f.calls%2 == 1 {
		return nil, errScripted
	}
	return f.real.Sign(rnd, digest, opts)
}

// failOnceReader: an entropy source whose first Read fails
type failOnceReader struct {
	r     io.Reader
	reads int
}

func (f *failOnceReader) Read(p []byte) (int, error) {
	f.reads++
	if f.reads == 1 {
		return 0, errScripted
	}
	return f.r.Read(p)
}

// faultyCryptoSigner: a crypto.Signer whose Sign fails in the scripted way
type faultyCryptoSigner struct {
	pub  crypto.PublicKey
	mode string
}

func (f *faultyCryptoSigner) Public() crypto.PublicKey { return f.pub }
func (f *faultyCryptoSigner) Sign(io.Reader, []byte, crypto.SignerOpts) ([]byte, error) {
	switch f.mode {
	case "nil":
		return nil, nil
	case "empty":
		return []byte{}, nil
	case "error":
		return nil, errScripted
	}
	return []byte{1, 2, 3}, errScripted
}

// stripBstrHead returns the content of a CBOR byte string given with its head (nil if it is not one).
func stripBstrHead(b []byte) []byte {
	w, err := refParseFull(b)
	if err != nil || w.Maj != 2 {
		return nil
	}
	return w.Str
}

// c11Positional: several signers of ONE algorithm, each with a key of its own. The message verifies with the verifiers
// in signer order and with no other assignment: verifiers swapped, one key offered for every position, a correct key at
// a position other than its own - all refused; a refusing verifier at one position is never made good by asking the
// verifier of another position (recording verifiers: each is asked once, about its own signer). And the verdict is
// about the signature bytes the message holds now: a signature edited after a successful verification is refused.
func c11Positional(c *Collector, r *Rng) {
	type kp struct {
		alg    cose.Algorithm
		name   string
		signer []cose.Signer
		verif  []cose.Verifier
	}
	var sets []kp
	for _, ci := range curves {
		s := kp{alg: ci.alg, name: ci.name}
		for j := 0; j < 3; j++ {
			k, err := ecdsa.GenerateKey(ci.curve, r)
			if err != nil {
				return
			}
			sg, _ := cose.NewSigner(ci.alg, k)
			vf, _ := cose.NewVerifier(ci.alg, &k.PublicKey)
			s.signer, s.verif = append(s.signer, sg), append(s.verif, vf)
		}
		sets = append(sets, s)
	}
	{
		s := kp{alg: cose.AlgorithmEdDSA, name: "Ed25519"}
		for j := 0; j < 3; j++ {
			pub, priv, _ := ed25519.GenerateKey(r)
			sg, _ := cose.NewSigner(cose.AlgorithmEdDSA, priv)
			vf, _ := cose.NewVerifier(cose.AlgorithmEdDSA, pub)
			s.signer, s.verif = append(s.signer, sg), append(s.verif, vf)
		}
		sets = append(sets, s)
	}
	for _, s := range sets {
		for n := 2; n <= 3; n++ {
			for _, sameHeaders := range []bool{true, false} {
				m := &cose.SignMessage{Headers: cose.Headers{Protected: cose.ProtectedHeader{int64(4): []byte("body")}}, Payload: []byte("payload")}
				for j := 0; j < n; j++ {
					h := cose.Headers{Protected: cose.ProtectedHeader{cose.HeaderLabelAlgorithm: s.alg}}
					if !sameHeaders {
						h.Protected[int64(4)] = []byte(fmt.Sprintf("signer-%d", 9-j)) // later signers encode to smaller bytes
					}
					m.Signatures = append(m.Signatures, &cose.Signature{Headers: h})
				}
				ext := []byte("ext")
				if err := m.Sign(r, ext, s.signer[:n]...); err != nil {
					continue
				}
				rep := map[string]any{"alg": s.alg.String(), "signers": n, "same_signer_headers": sameHeaders}
				c.Eval("positional/"+s.name, fmt.Sprint(n, sameHeaders), true)
				if err := m.Verify(ext, s.verif[:n]...); err != nil {
					c.Fail("C11/valid-refused", "COSE_Sign with one key per signer (one algorithm) does not verify with the verifiers in signer order: "+err.Error(), rep)
					continue
				}
				// every other assignment of the n keys to the n positions
				var assign func(prefix []int)
				assign = func(prefix []int) {
					if len(prefix) == n {
						inOrder := true
						for i, v := range prefix {
							if v != i {
								inOrder = false
							}
						}
						if inOrder {
							return
						}
						var vs []cose.Verifier
						for _, v := range prefix {
							vs = append(vs, s.verif[v])
						}
						if err := m.Verify(ext, vs...); err == nil {
							rep2 := map[string]any{"alg": s.alg.String(), "signers": n, "verifier_for_each_position": fmt.Sprint(prefix)}
							c.Fail("C11/accepted-reordered", fmt.Sprintf("COSE_Sign verified although position i was offered the key of signer %v[i]", prefix), rep2)
						}
						return
					}
					for v := 0; v < 3; v++ {
						assign(append(append([]int{}, prefix...), v))
					}
				}
				assign(nil)
				// decoded from the wire: the same
				if b, err := m.MarshalCBOR(); err == nil {
					var back cose.SignMessage
					if back.UnmarshalCBOR(b) == nil {
						if err := back.Verify(ext, s.verif[:n]...); err != nil {
							c.Fail("C11/valid-refused", "a decoded COSE_Sign does not verify with the verifiers in the order the signers signed: "+err.Error(), map[string]any{"alg": s.alg.String(), "data": hx(b)})
						}
						for j, sg := range back.Signatures {
							if j < len(m.Signatures) && !bytes.Equal(sg.Signature, m.Signatures[j].Signature) {
								c.Fail("C11/accepted-reordered", fmt.Sprintf("after the wire round trip position %d holds another signer's signature", j), map[string]any{"alg": s.alg.String(), "data": hx(b)})
								break
							}
						}
						vs := append([]cose.Verifier{}, s.verif[:n]...)
						vs[0], vs[1] = vs[1], vs[0]
						if back.Verify(ext, vs...) == nil {
							c.Fail("C11/accepted-reordered", "a decoded COSE_Sign verified with the first two verifiers swapped", map[string]any{"alg": s.alg.String(), "data": hx(b)})
						}
					}
				}
				// a signature edited after the message verified
				for j := 0; j < n; j++ {
					if m.Verify(ext, s.verif[:n]...) != nil {
						break
					}
					keep := append([]byte{}, m.Signatures[j].Signature...)
					m.Signatures[j].Signature[len(keep)/2] ^= 0x10
					err1 := m.Verify(ext, s.verif[:n]...)
					m.Signatures[j].Signature = append([]byte{}, keep...)
					m.Signatures[j].Signature[0] ^= 0x01
					err2 := m.Verify(ext, s.verif[:n]...)
					m.Signatures[j].Signature = keep
					c.Eval("edited-after-verify/"+s.name, fmt.Sprint(n, j, sameHeaders), true)
					if err1 == nil || err2 == nil {
						c.Fail("C11/accepted-tampered", fmt.Sprintf("signature %d of %d was edited after the message had verified; verifying again returned nil", j, n), rep)
					}
					// and a payload edited after the message verified
					m.Payload = []byte("Payload")
					err3 := m.Verify(ext, s.verif[:n]...)
					m.Payload = []byte("payload")
					if err3 == nil {
						c.Fail("C11/accepted-tampered", "the payload was replaced after the message had verified; verifying again returned nil", rep)
					}
				}
			}
		}
	}
	// recording verifiers: one refuses, the others accept
	for n := 2; n <= 4; n++ {
		for bad := 0; bad < n; bad++ {
			for _, refusal := range []error{cose.ErrVerification, errScripted} {
				m := &cose.SignMessage{Headers: cose.Headers{Protected: cose.ProtectedHeader{}}, Payload: []byte("payload")}
				var vfs []*spyVerifier
				for j := 0; j < n; j++ {
					m.Signatures = append(m.Signatures, &cose.Signature{Headers: cose.Headers{Protected: cose.ProtectedHeader{cose.HeaderLabelAlgorithm: cose.AlgorithmES256, int64(4): []byte{byte(j)}}}, Signature: []byte{byte(j + 1)}})
					v := &spyVerifier{alg: -7}
					if j == bad {
						v.err = refusal
					}
					vfs = append(vfs, v)
				}
				op, obs, verr, p := execVerifyMsg(m, []byte("x"), vfs)
				if p {
					c.Fail("C11/panic", "Verify panicked", map[string]any{"op": trunc(op, 400)})
					continue
				}
				addCase(c, "one-refusing-verifier", op, obs, true)
				rep := map[string]any{"signers": n, "refusing_position": bad, "refusal": fmt.Sprint(refusal)}
				if verr == nil {
					c.Fail("C11/accepted-failing", "COSE_Sign verified although the verifier at one position refused", rep)
				}
				for j, v := range vfs {
					want, _ := refSigN(&m.Headers, &m.Signatures[j].Headers, []byte("x"), m.Payload)
					for _, cl := range v.calls {
						if !bytes.Equal(cl.content, want) || !bytes.Equal(cl.sig, m.Signatures[j].Signature) {
							c.Fail("C11/own-structure", fmt.Sprintf("the verifier at position %d was asked about a signer other than its own (signature %x)", j, cl.sig), rep)
						}
					}
					if len(v.calls) > 1 {
						c.Fail("C11/own-structure", fmt.Sprintf("the verifier at position %d was asked %d times", j, len(v.calls)), rep)
					}
				}
			}
		}
	}
}

// revocableSigner: a real key behind a crypto.Signer that refuses every request once it has been withdrawn
type revocableSigner struct {
	real    crypto.Signer
	revoked bool
	calls   int
}

func (f *revocableSigner) Public() crypto.PublicKey { return f.real.Public() }
func (f *revocableSigner) Sign(rnd io.Reader, digest []byte, opts crypto.SignerOpts) ([]byte, error) {
	f.calls++
	if f.revoked {
		return nil, errScripted
	}
	return f.real.Sign(rnd, digest, opts)
}

func vsig(v *spyVerifier) []byte {
	if len(v.calls) == 0 {
		return nil
	}
	return v.calls[0].sig
}

// c11OneSignerManySlots: one Signer value (plain key, or a key behind an opaque crypto.Signer) fills several slots of a
// COSE_Sign whose signers have different protected headers, then signs a second message: every slot holds a signature
// over its own structure (verified by the standard library), in memory and after the wire round trip, and stays what
// it was when the signer is used again.
func c11OneSignerManySlots(c *Collector, r *Rng) {
	keys := append(append([]realKey{}, realKeySet(r)...), opaqueKeySet(r)...)
	for _, k := range keys {
		signer := k.signer()
		build := func(tag string, n int) *cose.SignMessage {
			m := &cose.SignMessage{Headers: cose.Headers{Protected: cose.ProtectedHeader{int64(4): []byte("body" + tag)}}, Payload: []byte("payload" + tag)}
			for j := 0; j < n; j++ {
				m.Signatures = append(m.Signatures, &cose.Signature{Headers: cose.Headers{Protected: cose.ProtectedHeader{cose.HeaderLabelAlgorithm: k.alg, int64(4): []byte(fmt.Sprintf("signer-%d%s", j, tag))}}})
			}
			return m
		}
		for n := 2; n <= 3; n++ {
			m1 := build("-a", n)
			ext := []byte("ext")
			var sgs []cose.Signer
			var vfs []cose.Verifier
			for j := 0; j < n; j++ {
				sgs = append(sgs, signer)
				vfs = append(vfs, k.verifier())
			}
			rep := map[string]any{"key": k.name, "alg": k.alg.String(), "slots": n}
			if err := m1.Sign(r, ext, sgs...); err != nil {
				continue
			}
			c.Eval("one-signer-many-slots/"+k.name+"/"+k.alg.String(), fmt.Sprint(n), true)
			check := func(when string, m *cose.SignMessage) bool {
				for j, s := range m.Signatures {
					want, _ := refSigN(&m.Headers, &s.Headers, ext, m.Payload)
					if !refVerify(k.alg, k.pub, want, s.Signature) {
						c.Fail("C11/slot-not-own-signature", fmt.Sprintf("%s: slot %d of %d (all filled by one Signer value) does not hold a signature over its own Sig_structure", when, j, n), rep)
						return false
					}
				}
				return true
			}
			if !check("after Sign", m1) {
				continue
			}
			if err := m1.Verify(ext, vfs...); err != nil {
				c.Fail("C11/valid-refused", "a COSE_Sign whose slots were all filled by one Signer value does not verify: "+err.Error(), rep)
				continue
			}
			held := make([][]byte, n)
			for j, s := range m1.Signatures {
				held[j] = append([]byte{}, s.Signature...)
			}
			m2 := build("-b", n)
			if err := m2.Sign(r, ext, sgs...); err == nil {
				check("second message", m2)
			}
			for j, s := range m1.Signatures {
				if !bytes.Equal(held[j], s.Signature) {
					c.Fail("C11/slot-not-own-signature", fmt.Sprintf("signature %d of the first message changed when the same Signer value signed a second message", j), rep)
					break
				}
			}
			if b, err := m1.MarshalCBOR(); err == nil {
				var back cose.SignMessage
				if back.UnmarshalCBOR(b) == nil {
					if err := back.Verify(ext, vfs...); err != nil {
						c.Fail("C11/valid-refused", "after the wire round trip: "+err.Error(), rep)
					}
				}
			}
		}
	}
}

// entropyReadingSigner: a real key behind a crypto.Signer that first draws 32 octets from the entropy source it is
// handed and fails when it cannot
type entropyReadingSigner struct {
	real   crypto.Signer
	sawNil bool
	calls  int
}

func (f *entropyReadingSigner) Public() crypto.PublicKey { return f.real.Public() }
func (f *entropyReadingSigner) Sign(rnd io.Reader, digest []byte, opts crypto.SignerOpts) ([]byte, error) {
	f.calls++
	if rnd == nil {
		f.sawNil = true
		rnd = crand.Reader
	}
	var nonce [32]byte
	if _, err := io.ReadFull(rnd, nonce[:]); err != nil {
		return nil, err
	}
	return f.real.Sign(rnd, digest, opts)
}

// c11SharedVerifiers: the verifiers of a COSE_Sign shared by 12 goroutines that verify valid messages with large
// payloads at the same time (a gateway does this with its trust anchors): every verification of a valid message
// returns nil, every verification of a message with one signature edited does not.
func c11SharedVerifiers(c *Collector, r *Rng) {
	for _, k := range realKeySet(r) {
		signer := k.signer()
		vfs := []cose.Verifier{k.verifier(), k.verifier()}
		var msgs []*cose.SignMessage
		for i := 0; i < 4; i++ {
			m := &cose.SignMessage{Headers: cose.Headers{Protected: cose.ProtectedHeader{}}, Payload: r.Bytes(192*1024 + i)}
			for j := 0; j < 2; j++ {
				m.Signatures = append(m.Signatures, &cose.Signature{Headers: cose.Headers{Protected: cose.ProtectedHeader{cose.HeaderLabelAlgorithm: k.alg, int64(4): []byte{byte(j)}}}})
			}
			if err := m.Sign(r, nil, signer, signer); err != nil {
				break
			}
			msgs = append(msgs, m)
		}
		if len(msgs) == 0 {
			continue
		}
		bad := &cose.SignMessage{Headers: msgs[0].Headers, Payload: msgs[0].Payload, Signatures: []*cose.Signature{msgs[0].Signatures[0], {Headers: msgs[0].Signatures[1].Headers, Signature: append([]byte{}, msgs[0].Signatures[1].Signature...)}}}
		bad.Signatures[1].Signature[3] ^= 0x20
		var wg sync.WaitGroup
		var mu sync.Mutex
		refused, accepted := 0, 0
		rounds := 6
		if _, isRSA := k.priv.(*rsa.PrivateKey); isRSA {
			rounds = 3
		}
		for g := 0; g < 12; g++ {
			wg.Add(1)
			go func(g int) {
				defer wg.Done()
				for rd := 0; rd < rounds; rd++ {
					m := msgs[(g+rd)%len(msgs)]
					var err error
					if p, _ := protect(func() { err = m.Verify(nil, vfs...) }); p || err != nil {
						mu.Lock()
						refused++
						mu.Unlock()
					}
					if p, _ := protect(func() { err = bad.Verify(nil, vfs...) }); !p && err == nil {
						mu.Lock()
						accepted++
						mu.Unlock()
					}
				}
			}(g)
		}
		wg.Wait()
		c.Eval("shared-verifiers/"+k.name+"/"+k.alg.String(), fmt.Sprint(rounds), true)
		if refused > 0 || accepted > 0 {
			c.Fail("C11/verdict-depends-on-concurrent-use", fmt.Sprintf("the verifiers of a COSE_Sign shared by 12 goroutines (192 KiB payloads, %v): %d verifications of valid messages refused or panicked, %d of a message with an edited signature accepted", k.alg, refused, accepted), map[string]any{"key": k.name, "alg": k.alg.String()})
		}
	}
}
