package main

import (
	"errors"
	"fmt"

	cose "github.com/veraison/go-cose"
)

// c03Others: the "if and only if" of C03 for the verification entry points other than COSE_Sign1:
// SignMessage.Verify / Signature.Verify on mutated wire bytes, Countersignature.Verify and
// VerifyCountersign0 over the four parent kinds. The expected verdict is computed from the received
// bytes / fields with the harness's own RFC 9052 / 9338 encoders and the standard library's verifiers.
func c03Others(c *Collector, r *Rng, keys []realKey, thorough bool) {
	n := 6
	if thorough {
		n = 40
	}
	// ---- COSE_Sign ----
	for _, k := range keys {
		other := keys[(indexOfKey(keys, k)+1)%len(keys)]
		for i := 0; i < n; i++ {
			ext := genGoExternal(r)
			ns := 1 + r.Intn(3)
			m := &cose.SignMessage{Headers: genGoHeaders(r, BucketCfg{Max: 3, Csig: 0}, 0, false, false), Payload: r.Bytes(1 + r.Intn(30))}
			ks := make([]realKey, ns)
			signers := make([]cose.Signer, ns)
			for j := 0; j < ns; j++ {
				ks[j] = k
				if j > 0 && r.Bool() {
					ks[j] = other
				}
				signers[j] = ks[j].signer()
				m.Signatures = append(m.Signatures, &cose.Signature{Headers: genGoHeaders(r, BucketCfg{Max: 3, Csig: 0}, ks[j].alg, true, false)})
			}
			if err := m.Sign(r, ext, signers...); err != nil {
				continue
			}
			data, err := m.MarshalCBOR()
			if err != nil {
				continue
			}
			base, perr := refParseFull(data)
			if perr != nil {
				c.Fail("C03/own-output-unparsable", "library output is not well-formed CBOR", map[string]any{"data": hx(data)})
				continue
			}
			check := func(class string, in []byte, vext []byte, vks []realKey) {
				d := decodeCase(c, "decode/"+class, "DSignMsg", in)
				if d.paniced || d.err != nil {
					return
				}
				vfs := make([]cose.Verifier, len(vks))
				for j := range vks {
					vfs[j] = vks[j].verifier()
				}
				var verr error
				if p, _ := protect(func() { verr = d.sm.Verify(vext, vfs...) }); p {
					c.Fail("C03/panic", "SignMessage.Verify panicked", map[string]any{"data": hx(in)})
					return
				}
				w, _ := refParseFull(in)
				body := w.Kids[0]
				want, why := true, "crypto"
				sigs := body.Kids[3].Kids
				switch {
				case body.Kids[2].isNull():
					want, why = false, "payload-missing"
				case len(sigs) != len(vks):
					want, why = false, "verifier-count"
				default:
					for j, s := range sigs {
						wa, isInt, present := algInWire(s.Kids[0].Ser())
						if (present && (!isInt || cose.Algorithm(wa) != vks[j].alg)) || (!present && len(vext) == 0) {
							want, why = false, "alg-gate"
							break
						}
						tbs := refArray(refTstr("Signature"), refBstr(body.Kids[0].Str), refBstr(s.Kids[0].Str), refBstr(orEmpty(vext)), refBstr(body.Kids[2].Str))
						if !refVerify(vks[j].alg, vks[j].pub, tbs, s.Kids[2].Str) {
							want = false
							break
						}
					}
				}
				c.Eval("sign-mutant/"+class+"/"+why, hx(in)+hx(vext)+fmt.Sprint(len(vks)), true)
				if (verr == nil) != want {
					c.Fail("C03/verdict-sign", fmt.Sprintf("SignMessage.Verify returned %v but the reference verdict is %v (%s)", verr, want, why), map[string]any{"data": hx(in), "ext": hx(vext), "class": class})
				}
				if verr != nil && want == false && why == "crypto" && !errors.Is(verr, cose.ErrVerification) {
					c.Fail("C03/errclass", "invalid COSE_Sign signature reported with an error other than ErrVerification: "+verr.Error(), map[string]any{"data": hx(in)})
				}
			}
			check("unchanged", data, ext, ks)
			if len(ext) > 0 {
				check("other-external", data, append(append([]byte{}, ext...), 1), ks)
			} else {
				check("external-added", data, []byte{0}, ks)
			}
			if ns > 1 {
				rot := append(append([]realKey{}, ks[1:]...), ks[0])
				check("verifiers-rotated", data, ext, rot)
				check("one-verifier-fewer", data, ext, ks[:ns-1])
			}
			for j := 0; j < 4; j++ {
				b, desc := mutateBytes(r, data)
				check("byte/"+desc, b, ext, ks)
			}
			for j := 0; j < 3; j++ {
				t := base.Clone()
				desc := mutateTree(r, &t)
				check("tree/"+desc, t.Ser(), ext, ks)
			}
			{ // signature transplant between signers of the same message, and a Sign1 signature placed in a COSE_Sign
				t := base.Clone()
				ss := t.Kids[0].Kids[3].Kids
				if len(ss) > 1 {
					ss[0].Kids[2], ss[1].Kids[2] = ss[1].Kids[2], ss[0].Kids[2]
					check("signatures-swapped", t.Ser(), ext, ks)
				}
				m1 := &cose.Sign1Message{Headers: cloneHeaders(m.Signatures[0].Headers), Payload: m.Payload}
				m1.Headers.RawProtected, m1.Headers.RawUnprotected = nil, nil
				if err := m1.Sign(r, ext, ks[0].signer()); err == nil {
					t2 := base.Clone()
					t2.Kids[0].Kids[3].Kids[0].Kids[2] = wBstr(m1.Signature, -1)
					check("sign1-signature-transplanted", t2.Ser(), ext, ks)
				}
			}
			{ // unprotected-only edits of body and signer
				t := base.Clone()
				for _, u := range []*W{t.Kids[0].Kids[1], t.Kids[0].Kids[3].Kids[0].Kids[1]} {
					u.Kids = append(u.Kids, wInt(int64(900+r.Intn(50)), -1), wTstr("x", -1))
					u.Width = pickW(uint64(len(u.Kids)/2), -1)
				}
				check("unprotected-add", t.Ser(), ext, ks)
			}
			{ // head widths
				t := base.Clone()
				t.RandWidths(r, 1, 1, isEnvelopeHead("DSignMsg", t))
				check("respell-widths", t.Ser(), ext, ks)
			}
		}
	}
	// ---- countersignatures, full and abbreviated, over the four parent kinds ----
	for _, k := range keys {
		other := keys[(indexOfKey(keys, k)+1)%len(keys)]
		for i := 0; i < n; i++ {
			ext := genGoExternal(r)
			parents := genParents(r, true)
			if i%2 == 1 {
				parents = decodedParents(r)
			}
			for _, pv := range parents {
				switch p := pv.(type) {
				case *cose.Sign1Message:
					if p.Payload == nil {
						p.Payload = []byte{}
					}
					if len(p.Signature) == 0 {
						continue
					}
				case *cose.SignMessage:
					if p.Payload == nil {
						p.Payload = []byte{}
					}
					if len(p.Signatures) == 0 {
						continue
					}
				case *cose.Signature:
					if len(p.Signature) == 0 {
						continue
					}
				case *cose.Countersignature:
					if len(p.Signature) == 0 {
						continue
					}
				}
				ptr := r.Bool()
				par := parentOf(pv, ptr)
				cs := cose.NewCountersignature()
				if r.Chance(3, 4) || len(ext) == 0 {
					cs.Headers.Protected.SetAlgorithm(k.alg)
				} else {
					cs.Headers.Protected = nil // algorithm absent: allowed because external data is supplied
				}
				if err := cs.Sign(r, k.signer(), par.val, ext); err != nil {
					continue
				}
				sig0, err := cose.Countersign0(r, k.signer(), par.val, ext)
				if err != nil {
					continue
				}
				rep := map[string]any{"parent": trunc(par.coq, 600), "alg": k.alg.String(), "ext": hx(ext)}
				// verdicts for (countersignature headers, signature bytes) under both entry points
				verdict := func(class string, parent any, h cose.Headers, sig []byte, vext []byte, vk realKey) {
					sp, err := refProtectedBstr(&h)
					if err != nil {
						return
					}
					// full form
					full := &cose.Countersignature{Headers: h, Signature: sig}
					var verr error
					if p, _ := protect(func() { verr = full.Verify(vk.verifier(), parent, vext) }); p {
						c.Fail("C03/panic", "Countersignature.Verify panicked", rep)
						return
					}
					wa, isInt, present := algInWire(sp)
					gate := (present && isInt && cose.Algorithm(wa) == vk.alg) || (!present && len(vext) > 0)
					want := false
					if gate && len(sig) > 0 {
						if tbs, err := refCountersign(false, parent, sp, vext); err == nil {
							want = refVerify(vk.alg, vk.pub, tbs, sig)
						}
					}
					c.Eval("countersign/full/"+class, par.coq+hx(sig)+hx(vext)+vk.name, true)
					if (verr == nil) != want {
						c.Fail("C03/verdict-countersign", fmt.Sprintf("Countersignature.Verify returned %v but the reference verdict over the RFC 9338 structure is %v (%s)", verr, want, class), rep)
					}
					// abbreviated form with the same signature bytes
					var verr0 error
					if p, _ := protect(func() { verr0 = cose.VerifyCountersign0(vk.verifier(), parent, vext, sig) }); p {
						c.Fail("C03/panic", "VerifyCountersign0 panicked", rep)
						return
					}
					want0 := false
					if tbs, err := refCountersign(true, parent, []byte{0x40}, vext); err == nil {
						want0 = refVerify(vk.alg, vk.pub, tbs, sig)
					}
					c.Eval("countersign/abbreviated/"+class, par.coq+hx(sig)+hx(vext)+vk.name, true)
					if (verr0 == nil) != want0 {
						c.Fail("C03/verdict-countersign0", fmt.Sprintf("VerifyCountersign0 returned %v but the reference verdict over the RFC 9338 structure is %v (%s)", verr0, want0, class), rep)
					}
				}
				empty := cose.Headers{}
				verdict("full-signature", par.val, cs.Headers, cs.Signature, ext, k)
				verdict("abbreviated-signature", par.val, cs.Headers, sig0, ext, k)
				verdict("abbreviated-signature-under-empty-headers", par.val, empty, sig0, append(append([]byte{}, ext...), 0), k)
				if len(ext) > 0 { // the two forms over identical inputs: only the context string separates them
					verdict("abbreviated-signature-as-full-with-empty-protected", par.val, empty, sig0, ext, k)
					cse := &cose.Countersignature{}
					if err := cse.Sign(r, k.signer(), par.val, ext); err == nil {
						verdict("full-with-empty-protected-as-abbreviated", par.val, cse.Headers, cse.Signature, ext, k)
					}
				}
				verdict("other-key", par.val, cs.Headers, cs.Signature, ext, other)
				verdict("other-external", par.val, cs.Headers, cs.Signature, append(append([]byte{}, ext...), 7), k)
				verdict("signature-bit", par.val, cs.Headers, flip(cs.Signature), ext, k)
				verdict("signature-bit-abbreviated", par.val, cs.Headers, flip(sig0), ext, k)
				verdict("signature-truncated", par.val, cs.Headers, cs.Signature[:len(cs.Signature)-1], ext, k)
				for _, mut := range mutateParentAll(pv) {
					verdict("parent/"+mut.what, mut.val, cs.Headers, cs.Signature, ext, k)
					verdict("parent0/"+mut.what, mut.val, cs.Headers, sig0, ext, k)
				}
				// the same parent of another kind: a Signature and a Countersignature with equal fields
				switch p := pv.(type) {
				case *cose.Signature:
					verdict("parent-kind-signature-to-countersignature", &cose.Countersignature{Headers: p.Headers, Signature: p.Signature}, cs.Headers, cs.Signature, ext, k)
				case *cose.Sign1Message:
					asSign := &cose.SignMessage{Headers: p.Headers, Payload: p.Payload, Signatures: []*cose.Signature{{Signature: []byte{1}}}}
					verdict("parent-kind-sign1-to-sign", asSign, cs.Headers, cs.Signature, ext, k)
					// the other direction: a countersignature honestly made over a COSE_Sign with the same protected
					// bytes and payload (the RFC 8152 structure without other_fields), offered for the COSE_Sign1
					cs2 := cose.NewCountersignature()
					cs2.Headers.Protected.SetAlgorithm(k.alg)
					if err := cs2.Sign(r, k.signer(), asSign, ext); err == nil {
						verdict("made-over-cose-sign-offered-for-sign1", par.val, cs2.Headers, cs2.Signature, ext, k)
					}
					if s0, err := cose.Countersign0(r, k.signer(), asSign, ext); err == nil {
						verdict("abbreviated-made-over-cose-sign-offered-for-sign1", par.val, cs.Headers, s0, ext, k)
					}
				}
			}
		}
	}
	// ---- hash envelopes: VerifyHashEnvelope on received bytes ----
	for _, k := range keys {
		for i := 0; i < n; i++ {
			hv := r.Bytes(32)
			h := cose.Headers{Protected: cose.ProtectedHeader{cose.HeaderLabelAlgorithm: k.alg}}
			if r.Bool() {
				h.Protected[int64(4)] = r.Bytes(1 + r.Intn(6))
			}
			hp := cose.HashEnvelopePayload{HashAlgorithm: cose.AlgorithmSHA256, HashValue: hv}
			if r.Bool() {
				hp.Location = "https://example.com/" + genText(r)
			}
			if r.Bool() {
				hp.PreimageContentType = "a/b"
			}
			env, err := cose.SignHashEnvelope(r, k.signer(), h, hp)
			if err != nil {
				continue
			}
			base, perr := refParseFull(env)
			if perr != nil || base.Maj != 6 || len(base.Kids[0].Kids) != 4 {
				c.Fail("C03/own-output-unparsable", "SignHashEnvelope output is not a tagged COSE_Sign1", map[string]any{"data": hx(env)})
				continue
			}
			check := func(class string, in []byte, mustAccept bool) {
				var m *cose.Sign1Message
				var verr error
				if p, _ := protect(func() { m, verr = cose.VerifyHashEnvelope(k.verifier(), in) }); p {
					c.Fail("C03/panic", "VerifyHashEnvelope panicked", map[string]any{"data": hx(in)})
					return
				}
				c.Eval("hashenvelope/"+class, hx(in)+k.name, true)
				valid := false
				if w, err := refParseFull(in); err == nil && w.Maj == 6 && w.Val == 18 && len(w.Kids[0].Kids) == 4 {
					b := w.Kids[0]
					if b.Kids[0].Maj == 2 && b.Kids[2].Maj == 2 && b.Kids[3].Maj == 2 {
						tbs := refArray(refTstr("Signature1"), refBstr(b.Kids[0].Str), refBstr(nil), refBstr(b.Kids[2].Str))
						valid = refVerify(k.alg, k.pub, tbs, b.Kids[3].Str)
					}
				}
				if verr == nil && m != nil && !valid {
					c.Fail("C03/verdict-hashenvelope", "VerifyHashEnvelope accepted an envelope whose signature is not valid over the RFC Sig_structure of the received bytes ("+class+")", map[string]any{"data": hx(in), "alg": k.alg.String()})
				}
				if mustAccept && verr != nil {
					c.Fail("C03/verdict-hashenvelope", "VerifyHashEnvelope refused a conforming envelope with a valid signature ("+class+"): "+verr.Error(), map[string]any{"data": hx(in), "alg": k.alg.String()})
				}
			}
			check("unchanged", env, true)
			{ // the same header set as another implementation may spell it: entry order and head widths differ; signed over those bytes
				t := base.Clone()
				b := t.Kids[0]
				if pm, err := refParseFull(b.Kids[0].Str); err == nil && pm.Maj == 5 {
					pm.RandWidths(r, 1, 1, nil)
					pm.ShuffleMaps(r)
					b.Kids[0].Str = pm.Ser()
					b.Kids[0].Width = pickW(uint64(len(b.Kids[0].Str)), pick(r, []int{-1, 1, 2}))
					tbs := refArray(refTstr("Signature1"), refBstr(b.Kids[0].Str), refBstr(nil), refBstr(b.Kids[2].Str))
					b.Kids[3] = wBstr(refSign(r, k, tbs), -1)
					check("respelled-protected-resigned", t.Ser(), true)
					// ... and with the original signature, which no longer matches unless the bytes are unchanged
					t2 := t.Clone()
					t2.Kids[0].Kids[3] = base.Kids[0].Kids[3].Clone()
					check("respelled-protected-old-signature", t2.Ser(), false)
				}
			}
			for j := 0; j < 4; j++ {
				bm, desc := mutateBytes(r, env)
				check("byte/"+desc, bm, false)
			}
			for j := 0; j < 3; j++ {
				t := base.Clone()
				desc := mutateTree(r, &t)
				check("tree/"+desc, t.Ser(), false)
			}
		}
	}

}
