package main

import (
	"errors"
	"flag"
	"fmt"
	"os"
	"sort"

	cose "github.com/veraison/go-cose"
)

var errScripted = errors.New("scripted failure")

// errClass maps an error to the model's error class.
func errClass(err error) string {
	switch {
	case errors.Is(err, errScripted):
		return "Signer"
	case errors.Is(err, cose.ErrAlgorithmMismatch):
		return "AlgMismatch"
	case errors.Is(err, cose.ErrAlgorithmNotFound):
		return "AlgNotFound"
	case errors.Is(err, cose.ErrAlgorithmNotSupported):
		return "AlgNotSupported"
	case errors.Is(err, cose.ErrInvalidAlgorithm):
		return "InvalidAlg"
	case errors.Is(err, cose.ErrEmptySignature):
		return "EmptySig"
	case errors.Is(err, cose.ErrNoSignatures):
		return "NoSigs"
	case errors.Is(err, cose.ErrMissingPayload):
		return "MissingPayload"
	case errors.Is(err, cose.ErrVerification):
		return "Verification"
	case errors.Is(err, cose.ErrInvalidPubKey):
		return "InvalidPubKey"
	case errors.Is(err, cose.ErrInvalidPrivKey):
		return "InvalidPrivKey"
	case errors.Is(err, cose.ErrNotPrivKey):
		return "NotPrivKey"
	case errors.Is(err, cose.ErrOpNotSupported):
		return "OpNotSupported"
	case errors.Is(err, cose.ErrEC2NoPub):
		return "EC2NoPub"
	case errors.Is(err, cose.ErrOKPNoPub):
		return "OKPNoPub"
	case errors.Is(err, cose.ErrInvalidKey):
		return "InvalidKey"
	}
	return "Other"
}

func oErr(err error) string { return oErrCls(errClass(err)) }

type propRunner func(c *Collector, r *Rng, thorough bool)

var runners = map[string]propRunner{}

func main() {
	prop := flag.String("prop", "", "property id")
	tier := flag.String("tier", "quick", "quick|thorough")
	seed := flag.Uint64("seed", 1, "seed")
	out := flag.String("out", "", "output directory")
	list := flag.Bool("list", false, "list properties")
	flag.Parse()
	if os.Getenv("HARNESS_CHILD") == "concurrent-decode" {
		concurrentDecodeChild(os.Getenv("HARNESS_CHILD_INPUT"))
		return
	}
	if *list {
		ids := []string{}
		for k := range runners {
			ids = append(ids, k)
		}
		sort.Strings(ids)
		for _, k := range ids {
			fmt.Println(k)
		}
		return
	}
	run, ok := runners[*prop]
	if !ok || *out == "" {
		fmt.Fprintln(os.Stderr, "usage: harness -prop Cxx -tier quick|thorough -seed N -out DIR")
		os.Exit(2)
	}
	c := NewCollector(*prop)
	os.Setenv("HARNESS_OUT", *out)
	inflight("the "+*prop+" run (no single operation recorded; the output tail names the goroutine that died)", "", nil)
	run(c, NewRng(*seed), *tier == "thorough")
	// anomalies noticed by the shared decoding helper (every key the run decodes is also decoded into one reused
	// Key variable): reported under the property that is being checked
	for _, a := range reuseAnomalies {
		c.Fail(*prop+"/decode-depends-on-destination", a.desc, a.rep)
	}
	os.Remove(*out + "/inflight.json")
	if err := c.Write(*out, *seed, *tier); err != nil {
		fmt.Fprintln(os.Stderr, err)
		os.Exit(2)
	}
	fmt.Printf("harness: %s cases=%d evals=%d failures=%d\n", *prop, len(c.Cases), c.Evals, len(c.Failures))
}

// protect runs f and reports whether it panicked.
func protect(f func()) (panicked bool, val any) {
	defer func() {
		if r := recover(); r != nil {
			panicked = true
			val = r
		}
	}()
	f()
	return
}
