package main

import "math/big"

// Rng is a splitmix64 PRNG; every random choice of a run derives from one seed.
type Rng struct{ s uint64 }

func NewRng(seed uint64) *Rng {
	// mix the seed so that neighbouring seeds give unrelated streams
	z := seed ^ 0x5DEECE66D1234567
	z = (z ^ (z >> 33)) * 0xFF51AFD7ED558CCD
	z = (z ^ (z >> 33)) * 0xC4CEB9FE1A85EC53
	z ^= z >> 33
	return &Rng{s: z}
}

func (r *Rng) U64() uint64 {
	r.s += 0x9E3779B97F4A7C15
	z := r.s
	z = (z ^ (z >> 30)) * 0xBF58476D1CE4E5B9
	z = (z ^ (z >> 27)) * 0x94D049BB133111EB
	return z ^ (z >> 31)
}

// Intn returns a value in [0,n).
func (r *Rng) Intn(n int) int {
	if n <= 0 {
		return 0
	}
	return int(r.U64() % uint64(n))
}

func (r *Rng) Bool() bool { return r.U64()&1 == 1 }

// Chance returns true with probability num/den.
func (r *Rng) Chance(num, den int) bool { return r.Intn(den) < num }

func (r *Rng) Bytes(n int) []byte {
	b := make([]byte, n)
	for i := range b {
		b[i] = byte(r.U64())
	}
	return b
}

// Read implements io.Reader (deterministic entropy for signing).
func (r *Rng) Read(p []byte) (int, error) {
	for i := range p {
		p[i] = byte(r.U64())
	}
	return len(p), nil
}

func (r *Rng) BigBelow(n *big.Int) *big.Int {
	k := (n.BitLen() + 7) / 8
	for {
		b := r.Bytes(k + 1)
		v := new(big.Int).SetBytes(b)
		v.Mod(v, n)
		return v
	}
}

func (r *Rng) Fork() *Rng { return NewRng(r.U64()) }

func pick[T any](r *Rng, xs []T) T { return xs[r.Intn(len(xs))] }
