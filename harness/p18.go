package main

import (
	"bytes"
	"crypto/ed25519"
	"crypto/rsa"
	"fmt"
	"math/big"
	"runtime"
	"strings"
	"sync"
	"time"

	cose "github.com/veraison/go-cose"
)

func init() {
	runners["C18"] = runC18
	runners["C19"] = runC19
}

// yieldingReader: entropy source that yields the processor on every read, to widen race windows
type yieldingReader struct {
	mu sync.Mutex
	r  *Rng
}

func (y *yieldingReader) Read(p []byte) (int, error) {
	runtime.Gosched()
	y.mu.Lock()
	defer y.mu.Unlock()
	return y.r.Read(p)
}

func snapshotKey(k *cose.Key) string { return oKey(k) }

func runC18(c *Collector, r *Rng, thorough bool) {
	c.Rule = "shared values (COSE_Sign1 tagged/untagged, COSE_Sign, COSE_Signature, countersignature + parent, COSE_Key, hash envelope; constructed and decoded incl. non-canonical protected bytes; 7 algorithms): deep snapshot, then 16 goroutines x k rounds of Verify / MarshalCBOR / VerifyHashEnvelope / Countersignature.Verify / Key.Verifier on the same value with the same verifier; every result must equal the sequential result and the snapshot must be unchanged; one Signer signs distinct messages concurrently (yielding entropy source) and every message must verify; the harness binary is built with -race (a detected race aborts the run); sequential read-only operations are also compared with the Coq model; non-trivial = operations ran concurrently on a shared value; distinct by value+operation"
	keys := realKeySet(r)
	G := 16
	rounds := 6
	nvals := 10
	if thorough {
		rounds = 40
		nvals = 150
	}
	type shared struct {
		name string
		snap func() string
		ops  []func() string // each returns a result rendering
	}
	res := func(b []byte, err error) string {
		if err != nil {
			return "err:" + errClass(err)
		}
		return "ok:" + hx(b)
	}
	for i := 0; i < nvals; i++ {
		k := keys[i%len(keys)]
		ext := genGoExternal(r)
		var vals []shared
		// --- constructed Sign1 ---
		m := &cose.Sign1Message{Headers: genGoHeaders(r, BucketCfg{Spell: true, Max: 5, Csig: 1}, k.alg, true, false), Payload: r.Bytes(1 + r.Intn(40))}
		if err := m.Sign(r, ext, k.signer()); err != nil {
			continue
		}
		vf := k.verifier()
		vals = append(vals, shared{"sign1-built/" + k.alg.String(), func() string { return oSign1(m) }, []func() string{
			func() string { return res(nil, m.Verify(ext, vf)) },
			func() string { return res(m.MarshalCBOR()) },
			func() string { return res((*cose.UntaggedSign1Message)(m).MarshalCBOR()) },
			func() string { return res(nil, m.Verify([]byte("other"), vf)) },
		}})
		// --- the same message assembled by an application from its parts (never signed in place): alg given as a
		// plain Go integer, label possibly spelled with another integer kind ---
		{
			hp := cose.ProtectedHeader{}
			for kk, v := range m.Headers.Protected {
				if n, ok := toI64(kk); ok && n == 1 {
					a, _ := m.Headers.Protected.Algorithm()
					hp[pick(r, []any{int64(1), int(1), int8(1)})] = pick(r, []any{int64(a), int(a), int32(a)})
					continue
				}
				hp[kk] = v
			}
			am := &cose.Sign1Message{Headers: cose.Headers{Protected: hp, Unprotected: m.Headers.Unprotected}, Payload: m.Payload, Signature: append([]byte{}, m.Signature...)}
			vals = append(vals, shared{"sign1-assembled/" + k.alg.String(), func() string { return oSign1(am) }, []func() string{
				func() string { return res(nil, am.Verify(ext, vf)) },
				func() string { return res(am.MarshalCBOR()) },
				func() string { return res(nil, am.Verify([]byte("other"), vf)) },
			}})
			as := &cose.Countersignature{Headers: cose.Headers{Protected: cose.ProtectedHeader{int64(1): int64(k.alg)}}, Signature: []byte{1, 2, 3}}
			vals = append(vals, shared{"countersignature-assembled/" + k.alg.String(), func() string { return oSigv((*cose.Signature)(as)) + oSign1(am) }, []func() string{
				func() string { return res(nil, as.Verify(vf, am, ext)) },
				func() string { return res(as.MarshalCBOR()) },
			}})
		}
		// --- a message assembled from the header bytes alone (Protected / Unprotected maps left nil), as a relay that
		// never decodes the buckets does; and a signer layer of the same kind ---
		if praw, err := m.Headers.MarshalProtected(); err == nil {
			uraw, _ := m.Headers.MarshalUnprotected()
			rm := &cose.Sign1Message{Headers: cose.Headers{RawProtected: append([]byte{}, praw...), RawUnprotected: append([]byte{}, uraw...)}, Payload: m.Payload, Signature: append([]byte{}, m.Signature...)}
			rcs := &cose.Countersignature{Headers: cose.Headers{RawProtected: append([]byte{}, praw...)}, Signature: []byte{1, 2, 3}}
			rsg := &cose.Signature{Headers: cose.Headers{RawProtected: append([]byte{}, praw...), RawUnprotected: []byte{0xa0}}, Signature: []byte{1, 2, 3}}
			vals = append(vals, shared{"sign1-raw-only/" + k.alg.String(), func() string { return oSign1(rm) + oSigv((*cose.Signature)(rcs)) + oSigv(rsg) }, []func() string{
				func() string { return res(nil, rm.Verify(ext, vf)) },
				func() string { return res(rm.MarshalCBOR()) },
				func() string { return res(nil, rm.Verify([]byte("other"), vf)) },
				func() string { return res(nil, rcs.Verify(vf, rm, ext)) },
				func() string { return res(nil, rsg.Verify(vf, []byte{0x40}, []byte("p"), ext)) },
				func() string { return res(nil, cose.VerifyCountersign0(vf, rm, ext, []byte{1, 2, 3})) },
			}})
		}
		// --- decoded Sign1 with non-canonical protected bstr head (slow path of the bstr normalisation) ---
		if b, err := m.MarshalCBOR(); err == nil {
			if t, err := refParseFull(b); err == nil {
				t.RandWidths(r, 1, 1, isEnvelopeHead("DSign1", t))
				t.Kids[0].Kids[0].Width = pick(r, widthsFor(uint64(len(t.Kids[0].Kids[0].Str)))[1:])
				var dm cose.Sign1Message
				if err := dm.UnmarshalCBOR(t.Ser()); err == nil {
					s0 := oSign1(&dm)
					cs := cose.NewCountersignature()
					cs.Headers.Protected.SetAlgorithm(k.alg)
					cs.Sign(r, k.signer(), &dm, ext)
					sig0, _ := cose.Countersign0(r, k.signer(), dm, ext)
					if s1 := oSign1(&dm); s1 != s0 {
						c.Fail("C18/modified-by-read", "countersigning a decoded message modified the parent", map[string]any{"value": "sign1-decoded", "before": trunc(s0, 600), "after": trunc(s1, 600)})
					}
					vals = append(vals, shared{"sign1-decoded/" + k.alg.String(), func() string { return oSign1(&dm) + oSigv((*cose.Signature)(cs)) }, []func() string{
						func() string { return res(nil, dm.Verify(ext, vf)) },
						func() string { return res(dm.MarshalCBOR()) },
						func() string { return res(nil, cs.Verify(vf, &dm, ext)) },
						func() string { return res(nil, cs.Verify(vf, dm, ext)) },
						func() string { return res(nil, cose.VerifyCountersign0(vf, &dm, ext, sig0)) },
						func() string { return res(cs.MarshalCBOR()) },
					}})
				}
			}
		}
		// --- a decoded message whose retained header bytes were discarded by truncation (raw[:0]: empty, not nil) ---
		if b, err := m.MarshalCBOR(); err == nil {
			var em cose.Sign1Message
			if err := em.UnmarshalCBOR(b); err == nil {
				em.Headers.RawProtected = em.Headers.RawProtected[:0]
				em.Headers.RawUnprotected = em.Headers.RawUnprotected[:0]
				ecs := &cose.Countersignature{Headers: cose.Headers{RawProtected: []byte{}, RawUnprotected: []byte{}, Protected: cose.ProtectedHeader{int64(1): int64(k.alg)}}, Signature: []byte{1, 2, 3}}
				vals = append(vals, shared{"sign1-raw-truncated/" + k.alg.String(), func() string { return oSign1(&em) + oSigv((*cose.Signature)(ecs)) }, []func() string{
					func() string { return res(nil, em.Verify(ext, vf)) },
					func() string { return res(em.MarshalCBOR()) },
					func() string { return res(nil, ecs.Verify(vf, &em, ext)) },
					func() string { return res(ecs.MarshalCBOR()) },
				}})
			}
		}
		// --- COSE_Sign ---
		sm := &cose.SignMessage{Headers: genGoHeaders(r, BucketCfg{Max: 3}, 0, false, false), Payload: r.Bytes(10)}
		k2 := keys[(i+3)%len(keys)]
		sm.Signatures = []*cose.Signature{{Headers: genGoHeaders(r, BucketCfg{Max: 2}, k.alg, true, false)}, {Headers: genGoHeaders(r, BucketCfg{Max: 2}, k2.alg, true, false)}}
		if err := sm.Sign(r, ext, k.signer(), k2.signer()); err == nil {
			v1, v2 := k.verifier(), k2.verifier()
			vals = append(vals, shared{"signmsg/" + k.alg.String(), func() string { return oSignMsg(sm) }, []func() string{
				func() string { return res(nil, sm.Verify(ext, v1, v2)) },
				func() string { return res(sm.MarshalCBOR()) },
				func() string { return res(sm.Signatures[0].MarshalCBOR()) },
				func() string { return res(nil, sm.Verify(ext, v2, v1)) },
			}})
		}
		// --- hash envelope ---
		if env, err := cose.SignHashEnvelope(r, k.signer(), cose.Headers{Protected: cose.ProtectedHeader{cose.HeaderLabelAlgorithm: k.alg}}, cose.HashEnvelopePayload{HashAlgorithm: cose.AlgorithmSHA256, HashValue: r.Bytes(32)}); err == nil {
			envCopy := append([]byte{}, env...)
			vals = append(vals, shared{"hashenvelope/" + k.alg.String(), func() string { return hx(env) }, []func() string{
				func() string {
					m, err := cose.VerifyHashEnvelope(vf, env)
					if err != nil {
						return "err:" + errClass(err)
					}
					return oSign1(m)
				},
			}})
			_ = envCopy
		}
		// --- the caller's Headers given to SignHashEnvelope are a template: signing from it, once or from several
		// goroutines, leaves it as it was (also when its maps are empty but not nil, as NewSign1Message().Headers) ---
		{
			tmpl := cose.Headers{Protected: cose.ProtectedHeader{}, Unprotected: cose.UnprotectedHeader{}}
			if i%2 == 1 {
				tmpl = cose.Headers{Protected: cose.ProtectedHeader{int64(4): []byte("kid")}, Unprotected: cose.UnprotectedHeader{}}
			}
			sgr := k.signer()
			entropy := &yieldingReader{r: r.Fork()} // safe for concurrent use
			vals = append(vals, shared{"hashenvelope-template/" + k.alg.String(), func() string { rp, p, ru, u := cHeaders(&tmpl); return rp + p + ru + u }, []func() string{
				func() string {
					_, err := cose.SignHashEnvelope(entropy, sgr, tmpl, cose.HashEnvelopePayload{HashAlgorithm: cose.AlgorithmSHA256, HashValue: make([]byte, 32), Location: "loc"})
					return res(nil, err)
				},
			}})
		}
		// --- COSE_Key ---
		if ck, err := cose.NewKeyFromPrivate(k.priv); err == nil {
			vals = append(vals, shared{"key/" + k.alg.String(), func() string { return snapshotKey(ck) }, []func() string{
				func() string {
					v, err := ck.Verifier()
					if err != nil {
						return "err:" + errClass(err)
					}
					return fmt.Sprint("alg", v.Algorithm())
				},
				func() string { return res(ck.MarshalCBOR()) },
				func() string {
					_, err := ck.PublicKey()
					return res(nil, err)
				},
			}})
		}
		// a key that does not name its algorithm (alg is optional in a COSE_Key): the algorithm is derived on use
		if ck, err := cose.NewKeyFromPrivate(k.priv); err == nil {
			ck.Algorithm = cose.AlgorithmReserved
			vals = append(vals, shared{"key-without-alg/" + k.alg.String(), func() string { return snapshotKey(ck) }, []func() string{
				func() string { return res(ck.MarshalCBOR()) },
				func() string {
					v, err := ck.Verifier()
					if err != nil {
						return "err:" + errClass(err)
					}
					return fmt.Sprint("alg", v.Algorithm())
				},
				func() string {
					v, err := ck.Signer()
					if err != nil {
						return "err:" + errClass(err)
					}
					return fmt.Sprint("alg", v.Algorithm())
				},
				func() string {
					a, err := ck.AlgorithmOrDefault()
					return fmt.Sprint("alg", a, err)
				},
				func() string { return res(ck.MarshalCBOR()) },
			}})
		}
		// a public key whose x coordinate was stored without its leading zero octets (a valid point with a tiny x), as a
		// caller that strips them would build it: conversion and serialisation pad a copy, never the caller's parameters
		{
			ci := curves[i%len(curves)]
			prm := ci.curve.Params()
			for xv := int64(0); xv < 64; xv++ {
				x := big.NewInt(xv)
				rhs := new(big.Int).Exp(x, big.NewInt(3), prm.P)
				rhs.Sub(rhs, new(big.Int).Mul(big.NewInt(3), x))
				rhs.Add(rhs, prm.B)
				rhs.Mod(rhs, prm.P)
				y := new(big.Int).ModSqrt(rhs, prm.P)
				if y == nil || !ci.curve.IsOnCurve(x, y) || xv == 0 {
					continue
				}
				yb := y.Bytes()
				sk := &cose.Key{Type: cose.KeyTypeEC2, Params: map[any]any{cose.KeyLabelEC2Curve: map[string]cose.Curve{"P-256": cose.CurveP256, "P-384": cose.CurveP384, "P-521": cose.CurveP521}[ci.name], cose.KeyLabelEC2X: x.Bytes(), cose.KeyLabelEC2Y: yb}}
				vals = append(vals, shared{"key-with-short-coordinate/" + ci.name, func() string { return snapshotKey(sk) }, []func() string{
					func() string {
						v, err := sk.Verifier()
						if err != nil {
							return "err:" + errClass(err)
						}
						return fmt.Sprint("alg", v.Algorithm())
					},
					func() string { return res(sk.MarshalCBOR()) },
					func() string {
						_, err := sk.PublicKey()
						return res(nil, err)
					},
					func() string {
						_, err := sk.Signer()
						return res(nil, err)
					},
				}})
				break
			}
		}
		// keys and messages whose values are held in other Go types than the decoder would produce (coordinates as
		// ed25519.PublicKey or a named byte slice, crit entries as int / uint8): read-only operations convert copies
		{
			edPub, edPriv, _ := ed25519.GenerateKey(r)
			type coord []byte
			nk := &cose.Key{Type: cose.KeyTypeOKP, Params: map[any]any{cose.KeyLabelOKPCurve: cose.CurveEd25519, cose.KeyLabelOKPX: edPub, cose.KeyLabelOKPD: coord(edPriv.Seed())}}
			vals = append(vals, shared{"key-with-named-byte-slices", func() string {
				return snapshotKey(nk) + fmt.Sprintf("%T %T", nk.Params[cose.KeyLabelOKPX], nk.Params[cose.KeyLabelOKPD])
			}, []func() string{
				func() string {
					_, err := nk.Verifier()
					return res(nil, err)
				},
				func() string { return res(nk.MarshalCBOR()) },
				func() string {
					_, err := nk.Signer()
					return res(nil, err)
				},
				func() string {
					_, err := nk.PublicKey()
					return res(nil, err)
				},
				func() string {
					_, _, d := nk.OKP()
					return hx(d)
				},
			}})
			crit := []any{1000, uint8(200), "ext", int64(4)}
			cm := &cose.Sign1Message{Headers: cose.Headers{Protected: cose.ProtectedHeader{cose.HeaderLabelAlgorithm: k.alg, cose.HeaderLabelCritical: crit, int64(1000): "a", int64(200): "b", "ext": "c", int64(4): []byte("kid")}, Unprotected: cose.UnprotectedHeader{}}, Payload: []byte("payload"), Signature: []byte{1, 2, 3}}
			ccs := &cose.Countersignature{Headers: cose.Headers{Protected: cose.ProtectedHeader{cose.HeaderLabelAlgorithm: k.alg, cose.HeaderLabelCritical: []any{int32(77)}, int64(77): int64(1)}}, Signature: []byte{1, 2, 3}}
			vals = append(vals, shared{"crit-in-other-integer-types/" + k.alg.String(), func() string {
				return oSign1(cm) + oSigv((*cose.Signature)(ccs)) + fmt.Sprintf("%T %T %T %T", crit[0], crit[1], crit[2], crit[3])
			}, []func() string{
				func() string { return res(nil, cm.Verify(ext, vf)) },
				func() string { return res(cm.MarshalCBOR()) },
				func() string { return res(nil, ccs.Verify(vf, cm, ext)) },
				func() string { return res(ccs.MarshalCBOR()) },
				func() string {
					l, err := cm.Headers.Protected.Critical()
					return fmt.Sprint(len(l), err)
				},
			}})
		}
		// buckets holding parameters whose value is nil (a lookup that found nothing, a placeholder): reading and
		// encoding leave them where they are
		{
			nm := &cose.Sign1Message{Headers: cose.Headers{Protected: cose.ProtectedHeader{cose.HeaderLabelAlgorithm: k.alg, int64(-70070): nil, "note": nil}, Unprotected: cose.UnprotectedHeader{int64(-70071): nil, int64(-70072): []byte(nil), "u": nil}}, Payload: []byte("payload"), Signature: []byte{1, 2, 3}}
			ncs := &cose.Countersignature{Headers: cose.Headers{Protected: cose.ProtectedHeader{cose.HeaderLabelAlgorithm: k.alg, int64(-70073): nil}, Unprotected: cose.UnprotectedHeader{int64(-70074): nil}}, Signature: []byte{1, 2, 3}}
			nsm := &cose.SignMessage{Headers: cose.Headers{Protected: cose.ProtectedHeader{int64(-70075): nil}, Unprotected: cose.UnprotectedHeader{int64(-70076): nil}}, Payload: []byte("p"), Signatures: []*cose.Signature{{Headers: cose.Headers{Protected: cose.ProtectedHeader{cose.HeaderLabelAlgorithm: k.alg, int64(-70077): nil}}, Signature: []byte{1}}}}
			vals = append(vals, shared{"nil-valued-parameters/" + k.alg.String(), func() string {
				return oSign1(nm) + oSigv((*cose.Signature)(ncs)) + oSignMsg(nsm) + fmt.Sprint(len(nm.Headers.Protected), len(nm.Headers.Unprotected), len(ncs.Headers.Protected), len(ncs.Headers.Unprotected), len(nsm.Headers.Protected), len(nsm.Headers.Unprotected), len(nsm.Signatures[0].Headers.Protected))
			}, []func() string{
				func() string { return res(nil, nm.Verify(ext, vf)) },
				func() string { return res(nm.MarshalCBOR()) },
				func() string { return res(nil, ncs.Verify(vf, nm, ext)) },
				func() string { return res(ncs.MarshalCBOR()) },
				func() string { return res(nil, nsm.Verify(ext, vf)) },
				func() string { return res(nsm.MarshalCBOR()) },
				func() string { return res(nm.Headers.MarshalProtected()) },
				func() string { return res(nm.Headers.MarshalUnprotected()) },
			}})
		}
		// a key as it comes off the wire: key_ops with a repeated entry ([2, "verify", 1] decodes to verify, verify, sign),
		// kid, base IV and an extra parameter
		if ck, err := cose.NewKeyFromPrivate(k.priv); err == nil {
			ck.Ops = []cose.KeyOp{cose.KeyOpVerify, cose.KeyOpVerify, cose.KeyOpSign, cose.KeyOpSign}
			ck.ID = []byte("kid")
			ck.BaseIV = []byte{1, 2, 3}
			if ck.Params != nil {
				ck.Params[int64(-70000)] = []any{int64(1), "x"}
			}
			vals = append(vals, shared{"key-with-ops/" + k.alg.String(), func() string { return snapshotKey(ck) }, []func() string{
				func() string { return res(ck.MarshalCBOR()) },
				func() string {
					v, err := ck.Verifier()
					if err != nil {
						return "err:" + errClass(err)
					}
					return fmt.Sprint("alg", v.Algorithm())
				},
				func() string {
					v, err := ck.Signer()
					if err != nil {
						return "err:" + errClass(err)
					}
					return fmt.Sprint("alg", v.Algorithm())
				},
				func() string { return res(ck.MarshalCBOR()) },
			}})
		}
		// --- values whose protected bucket names no algorithm (nil map, empty map): verification has nothing to check
		// the verifier's algorithm against - with external data it proceeds, without it fails - and writes nothing ---
		for hi, mkH := range []func() cose.Headers{
			func() cose.Headers { return cose.Headers{} },
			func() cose.Headers { return cose.Headers{Protected: cose.ProtectedHeader{}} },
			func() cose.Headers {
				return cose.Headers{Protected: cose.ProtectedHeader{int64(4): []byte("kid")}, Unprotected: cose.UnprotectedHeader{}}
			},
		} {
			parent := &cose.Sign1Message{Headers: cose.Headers{Protected: cose.ProtectedHeader{cose.HeaderLabelAlgorithm: k.alg}}, Payload: []byte("payload"), Signature: []byte{1, 2, 3}}
			m0 := &cose.Sign1Message{Headers: mkH(), Payload: []byte("payload"), Signature: []byte{1, 2, 3}}
			cs0 := &cose.Countersignature{Headers: mkH(), Signature: []byte{1, 2, 3}}
			sg0 := &cose.Signature{Headers: mkH(), Signature: []byte{1, 2, 3}}
			sm0 := &cose.SignMessage{Headers: mkH(), Payload: []byte("payload"), Signatures: []*cose.Signature{{Headers: mkH(), Signature: []byte{1, 2, 3}}}}
			vals = append(vals, shared{fmt.Sprintf("without-alg-%d/%s", hi, k.alg), func() string {
				return oSign1(parent) + oSign1(m0) + oSigv((*cose.Signature)(cs0)) + oSigv(sg0) + oSignMsg(sm0)
			}, []func() string{
				func() string { return res(nil, m0.Verify(nil, vf)) },
				func() string { return res(nil, m0.Verify([]byte("x"), vf)) },
				func() string { return res(nil, (*cose.UntaggedSign1Message)(m0).Verify(nil, vf)) },
				func() string { return res(nil, cs0.Verify(vf, parent, nil)) },
				func() string { return res(nil, cs0.Verify(vf, parent, []byte("x"))) },
				func() string { return res(nil, sg0.Verify(vf, []byte{0x40}, []byte("p"), nil)) },
				func() string { return res(nil, sg0.Verify(vf, []byte{0x40}, []byte("p"), []byte("x"))) },
				func() string { return res(nil, sm0.Verify(nil, vf)) },
				func() string { return res(nil, sm0.Verify([]byte("x"), vf)) },
				func() string { return res(nil, cose.VerifyCountersign0(vf, m0, nil, []byte{1, 2, 3})) },
				func() string { return res(m0.MarshalCBOR()) },
				func() string { return res(cs0.MarshalCBOR()) },
				func() string { return res(sm0.MarshalCBOR()) },
			}})
		}
		for _, sv := range vals {
			before := sv.snap()
			want := make([]string, len(sv.ops))
			for j, op := range sv.ops {
				want[j] = op()
			}
			if after := sv.snap(); after != before {
				c.Fail("C18/modified-by-read", sv.name+": a sequential Verify/MarshalCBOR modified the value", map[string]any{"value": sv.name, "before": trunc(before, 600), "after": trunc(after, 600)})
				continue
			}
			var wg sync.WaitGroup
			var mu sync.Mutex
			var diffs []string
			for g := 0; g < G; g++ {
				wg.Add(1)
				go func(g int) {
					defer wg.Done()
					for rd := 0; rd < rounds; rd++ {
						for j := range sv.ops {
							jj := (j + g) % len(sv.ops)
							got := sv.ops[jj]()
							if got != want[jj] {
								mu.Lock()
								diffs = append(diffs, fmt.Sprintf("op %d: concurrent %s, sequential %s", jj, trunc(got, 200), trunc(want[jj], 200)))
								mu.Unlock()
							}
						}
					}
				}(g)
			}
			wg.Wait()
			c.Eval("concurrent-readers/"+sv.name, before, true)
			if len(diffs) > 0 {
				c.Fail("C18/concurrent-result-differs", sv.name+": "+diffs[0], map[string]any{"value": sv.name, "diffs": len(diffs)})
			}
			if after := sv.snap(); after != before {
				c.Fail("C18/modified-by-read", sv.name+": concurrent Verify/MarshalCBOR modified the value", map[string]any{"value": sv.name, "before": trunc(before, 600), "after": trunc(after, 600)})
			}
		}
		// --- when SignMessage.Verify has returned, it has finished: no verifier is consulted afterwards (the caller may
		// reuse the message), and after a failure at position 0 the later verifiers were not consulted at all ---
		{
			var mu sync.Mutex
			returned := false
			lateCalls, laterCalls := 0, 0
			mk := func(pos int, fail bool) cose.Verifier {
				return &hookVerifier{alg: k.alg, f: func() error {
					if pos > 0 {
						time.Sleep(15 * time.Millisecond)
					}
					mu.Lock()
					if returned {
						lateCalls++
					}
					if pos > 0 {
						laterCalls++
					}
					mu.Unlock()
					if fail {
						return cose.ErrVerification
					}
					return nil
				}}
			}
			tm := &cose.SignMessage{Headers: cose.Headers{Protected: cose.ProtectedHeader{}}, Payload: []byte("payload")}
			for q := 0; q < 3; q++ {
				tm.Signatures = append(tm.Signatures, &cose.Signature{Headers: cose.Headers{Protected: cose.ProtectedHeader{cose.HeaderLabelAlgorithm: k.alg}}, Signature: []byte{byte(q + 1)}})
			}
			verr := tm.Verify(nil, mk(0, true), mk(1, false), mk(2, false))
			mu.Lock()
			returned = true
			mu.Unlock()
			tm.Payload[0] ^= 0xff // the caller reuses the message
			time.Sleep(60 * time.Millisecond)
			mu.Lock()
			lc, ll := lateCalls, laterCalls
			mu.Unlock()
			c.Eval("verify-has-finished-when-it-returns/"+k.alg.String(), fmt.Sprint(i), true)
			if verr == nil || lc > 0 || ll > 0 {
				c.Fail("C18/verify-still-running-after-return", fmt.Sprintf("SignMessage.Verify returned %v after the failure of verifier 0; verifiers 1 and 2 were consulted %d times, %d of them after Verify had returned", verr, ll, lc), map[string]any{"alg": k.alg.String()})
			}
		}
		// --- unrelated COSE_Keys used by different goroutines at the same time (each goroutine its own keys, with
		// curve identifiers nobody has used before among them): nothing is shared, so nothing races ---
		{
			var wgk sync.WaitGroup
			for g := 0; g < G; g++ {
				wgk.Add(1)
				go func(g int) {
					defer wgk.Done()
					for q := 0; q < 6; q++ {
						crv := int64(1 + (q % 3))
						if q >= 3 {
							crv = int64(1000 + i*1000 + g*10 + q) // not in the registry
						}
						kk := &cose.Key{Type: cose.KeyTypeEC2, Params: map[any]any{cose.KeyLabelEC2Curve: cose.Curve(crv), cose.KeyLabelEC2X: make([]byte, 32), cose.KeyLabelEC2Y: make([]byte, 32)}}
						kk.MarshalCBOR()
						kk.Verifier()
						kk.PublicKey()
						var dk cose.Key
						dk.UnmarshalCBOR([]byte{0xa4, 0x01, 0x02, 0x20, 0x19, byte(crv >> 8), byte(crv), 0x21, 0x41, 0x01, 0x22, 0x41, 0x02})
					}
				}(g)
			}
			wgk.Wait()
			c.Eval("concurrent-unrelated-keys", fmt.Sprint(i), true)
		}
		// --- one signer, distinct messages, concurrently ---
		signer := k.signer()
		var rawRSA *rsa.PrivateKey
		rawSnap := func() string { return "" }
		if rk, ok := k.priv.(*rsa.PrivateKey); ok && i%2 == 0 {
			// the caller's RSA key assembled from its components (as read from a key store), nothing precomputed:
			// signing reads it, concurrently, and leaves it as it is
			rawRSA = &rsa.PrivateKey{PublicKey: rsa.PublicKey{N: new(big.Int).Set(rk.N), E: rk.E}, D: new(big.Int).Set(rk.D), Primes: []*big.Int{new(big.Int).Set(rk.Primes[0]), new(big.Int).Set(rk.Primes[1])}}
			rawSnap = func() string {
				return fmt.Sprint(rawRSA.N, rawRSA.E, rawRSA.D, rawRSA.Primes, rawRSA.Precomputed.Dp, rawRSA.Precomputed.Dq, rawRSA.Precomputed.Qinv, len(rawRSA.Precomputed.CRTValues))
			}
			if s2, err := cose.NewSigner(k.alg, rawRSA); err == nil {
				signer = s2
			} else {
				rawRSA = nil
			}
		}
		keyBefore := rawSnap()
		yr := &yieldingReader{r: r.Fork()}
		msgs := make([]*cose.Sign1Message, G)
		errs := make([]error, G)
		var wg sync.WaitGroup
		for g := 0; g < G; g++ {
			msgs[g] = &cose.Sign1Message{Headers: cose.Headers{Protected: cose.ProtectedHeader{cose.HeaderLabelAlgorithm: k.alg}, Unprotected: cose.UnprotectedHeader{}}, Payload: []byte(fmt.Sprintf("message %d of %d", g, i))}
			wg.Add(1)
			go func(g int) {
				defer wg.Done()
				errs[g] = msgs[g].Sign(yr, ext, signer)
			}(g)
		}
		wg.Wait()
		c.Eval("concurrent-signers/"+k.alg.String(), fmt.Sprint(i), true)
		if keyAfter := rawSnap(); keyAfter != keyBefore {
			c.Fail("C18/signer-key-modified", "signing wrote to the caller's RSA private key (shared by every goroutine that signs with this signer)", map[string]any{"alg": k.alg.String(), "before": trunc(keyBefore, 200), "after": trunc(keyAfter, 200)})
		}
		for g := 0; g < G; g++ {
			if errs[g] != nil {
				c.Fail("C18/concurrent-sign-error", "concurrent Sign with a shared signer failed: "+errs[g].Error(), map[string]any{"alg": k.alg.String()})
			} else if err := msgs[g].Verify(ext, vf); err != nil {
				c.Fail("C18/concurrent-sign-wrong", "a message signed concurrently with a shared signer does not verify (signature belongs to another message?)", map[string]any{"alg": k.alg.String()})
			}
		}
		// concurrent countersigning of distinct parents
		cerrs := make([]error, G)
		csigs := make([]*cose.Countersignature, G)
		sig0s := make([][]byte, G)
		for g := 0; g < G; g++ {
			wg.Add(1)
			go func(g int) {
				defer wg.Done()
				if errs[g] != nil {
					return
				}
				cs := cose.NewCountersignature()
				cs.Headers.Protected.SetAlgorithm(k.alg)
				cerrs[g] = cs.Sign(yr, signer, msgs[g], ext)
				csigs[g] = cs
				sig0s[g], _ = cose.Countersign0(yr, signer, msgs[g], ext)
			}(g)
		}
		wg.Wait()
		for g := 0; g < G; g++ {
			if errs[g] != nil || cerrs[g] != nil {
				continue
			}
			if csigs[g].Verify(vf, msgs[g], ext) != nil || cose.VerifyCountersign0(vf, msgs[g], ext, sig0s[g]) != nil {
				c.Fail("C18/concurrent-countersign-wrong", "a countersignature made concurrently does not verify against its own parent", map[string]any{"alg": k.alg.String()})
			}
		}
		// sequential read-only operations, model comparison (post = pre)
		svf := &spyVerifier{alg: k.alg}
		op, obs, _, _ := execVerify1(m, ext, svf)
		addCase(c, "model/verify1", op, obs, true)
		op, obs, _, _, _ = execEncSign1(true, m)
		addCase(c, "model/enc-sign1", op, obs, true)
	}
}

// ---------- C19 ----------

func scribble(b []byte) {
	for i := range b {
		b[i] = 0xff
	}
}

func runC19(c *Collector, r *Rng, thorough bool) {
	c.Rule = "histories of 1..8 decodes (accepted and refused inputs of arbitrary messages, long payloads/signatures with 4- and 8-byte length fields included) into ONE destination variable per decoder (Sign1, untagged Sign1, COSE_Sign, Signature, Countersignature, both buckets): after each step the destination must render exactly like a fresh decode of the last accepted input (or stay unchanged after a refusal, deeply, including a copy taken earlier); afterwards every input buffer and every earlier MarshalCBOR output is overwritten with 0xff and the destination must not change; final destination and per-step verdicts compared with the Coq model; non-trivial = history contains an accepted decode followed by another decode; distinct by op term"
	n := 150
	if thorough {
		n = 3000
	}
	kinds := []string{"DSign1", "DSign1U", "DSignMsg", "DSignature", "DProt", "DUnprot"}
	// decoding depends on the input only, not on what the process decoded before, into whatever variable: reference
	// inputs (with nested countersignatures) are decoded into fresh variables before, during and after the run, with
	// batches of unusual inputs in between (countersignature chains of growing depth, accepted or refused, many times)
	chain := func(depth int) []byte {
		inner := wArr(-1, wBstr(wMap(-1, wInt(1, -1), wInt(-7, -1)).Ser(), -1), wMap(-1), wBstr([]byte{1, 2, 3}, -1))
		for dd := depth; dd > 1; dd-- {
			inner = wArr(-1, wBstr(wMap(-1, wInt(1, -1), wInt(-7, -1)).Ser(), -1), wMap(-1, wInt(11, -1), inner), wBstr([]byte{4, 5, 6}, -1))
		}
		return wTag(18, -1, wArr(-1, wBstr(wMap(-1, wInt(1, -1), wInt(-7, -1)).Ser(), -1), wMap(-1, wInt(11, -1), inner), wBstr([]byte("p"), -1), wBstr([]byte{9}, -1))).Ser()
	}
	refIn := [][]byte{chain(1), chain(2), chain(3), unhex("d28443a10126a104426b31f64101"), unhex("d28440a1078343a10126a04101f64101")}
	// messages carrying CWT claims whose dates lie just ahead (exp, nbf, iat one second from now, as integers and as
	// floats, in either bucket), long past and far ahead: what they decode to does not depend on when they are decoded -
	// the run ends no sooner than two seconds after it began, and decodes them again then
	startedAt := time.Now()
	{
		soon := startedAt.Unix() + 1
		for _, claims := range []*W{
			wMap(-1, wInt(4, -1), wInt(soon, -1)), wMap(-1, wInt(5, -1), wInt(soon, -1)), wMap(-1, wInt(4, -1), wInt(soon, -1), wInt(5, -1), wInt(soon, -1), wInt(6, -1), wInt(soon, -1)),
			wMap(-1, wInt(4, -1), wFloat64(float64(soon)+0.25)), wMap(-1, wInt(5, -1), wFloat64(float64(soon)+0.25)),
			wMap(-1, wInt(4, -1), wInt(1, -1)), wMap(-1, wInt(5, -1), wInt(4102444800, -1)), wMap(-1, wInt(4, -1), wInt(-1, -1), wInt(5, -1), wFloat64(1e12)),
		} {
			pcontent := wMap(-1, wInt(1, -1), wInt(-7, -1), wInt(15, -1), claims.Clone()).Ser()
			in1 := wTag(18, -1, wArr(-1, wBstr(pcontent, -1), wMap(-1), wBstr([]byte("p"), -1), wBstr([]byte{1}, -1))).Ser()
			in2 := wTag(18, -1, wArr(-1, wBstr(wMap(-1, wInt(1, -1), wInt(-7, -1)).Ser(), -1), wMap(-1, wInt(15, -1), claims.Clone()), wBstr([]byte("p"), -1), wBstr([]byte{1}, -1))).Ser()
			refIn = append(refIn, in1, in2)
			decodeCase(c, "cwt-dates", "DSign1", in1)
			decodeCase(c, "cwt-dates", "DSign1", in2)
		}
	}
	c19BigFailingInputs(c)
	var refWant []string
	for _, in := range refIn {
		refWant = append(refWant, plainDecode("DSign1", in))
	}
	refCheck := func(when string) {
		for j, in := range refIn {
			if got := plainDecode("DSign1", in); got != refWant[j] {
				c.Fail("C19/history-dependent", fmt.Sprintf("%s: an input decoded into a fresh variable gives %s; at the start of the run the same input gave %s", when, trunc(got, 200), trunc(refWant[j], 200)), map[string]any{"kind": "DSign1", "data": hx(in)})
				return
			}
		}
	}
	for depth := 4; depth <= 14; depth++ {
		first := plainDecode("DSign1", chain(depth))
		for rep := 0; rep < 12; rep++ {
			if got := plainDecode("DSign1", chain(depth)); got != first {
				c.Fail("C19/history-dependent", fmt.Sprintf("decoding number %d of the same input (a chain of %d nested countersignatures) differs from the first", rep+2, depth), map[string]any{"kind": "DSign1", "data": hx(chain(depth))})
				break
			}
		}
		c.Eval("global-history/chain-depth", fmt.Sprint(depth), true)
		refCheck(fmt.Sprintf("after decoding chains of %d nested countersignatures", depth))
	}
	defer func() {
		if wait := 2*time.Second - time.Since(startedAt); wait > 0 {
			time.Sleep(wait)
		}
		refCheck("at the end of the run (two seconds or more after its start)")
	}()
	// ... nor on what other goroutines decode at the same time (each into its own variables): child process
	{
		var concIn []string
		for _, in := range refIn {
			concIn = append(concIn, "DSign1 "+hx(in))
		}
		for q := 0; q < 40; q++ {
			kind := kinds[q%len(kinds)]
			t := genTreeOfKind(r, kind, GenCfg{MaxEntries: 6, ValDepth: 2, Csig: 1, Tags: true})
			concIn = append(concIn, kind+" "+hx(t.Ser()))
		}
		concurrentDecoders(c, "C19/concurrent-decoders", concIn)
	}
	for i := 0; i < n; i++ {
		kind := kinds[i%len(kinds)]
		steps := 2 + r.Intn(7)
		var inputs [][]byte
		for s := 0; s < steps; s++ {
			t := genTreeOfKind(r, kind, GenCfg{MaxEntries: 4, ValDepth: 2, Csig: 1, Tags: true, Floats: false})
			switch r.Intn(5) {
			case 0:
				mutateTree(r, &t)
			case 1:
				// fail late: a valid prefix of work, then a bad last signature / header
				if kind == "DSignMsg" && len(t.Kids[0].Kids) == 4 {
					sigs := t.Kids[0].Kids[3]
					sigs.Kids = append(sigs.Kids, wArr(-1, wBstr(nil, -1), wMap(-1), wBstr(nil, -1)))
					sigs.Width = pickW(uint64(len(sigs.Kids)), -1)
				} else {
					switch r.Intn(3) {
					case 0: // each bucket valid alone, IV and Partial IV split across them: refused by the last check of a decoder
						if _, ok := ivSplit(r, t); !ok {
							mutateTree(r, &t)
						}
					case 1: // a fault inside the protected map (crit naming an absent label, ...)
						if _, ok := mutateInProtected(r, t); !ok {
							mutateTree(r, &t)
						}
					default:
						mutateTree(r, &t)
					}
				}
			case 2:
				t.RandWidths(r, 1, 2, isEnvelopeHead(kind, t))
				// long-form length on payload / signature
				for _, p := range t.Nodes() {
					if (*p).Maj == 2 && r.Chance(1, 3) && !isEnvelopeHead(kind, t)(*p) {
						(*p).Width = pick(r, []int{4, 8})
					}
				}
			}
			inputs = append(inputs, t.Ser())
		}
		if r.Chance(1, 10) && (kind == "DSign1" || kind == "DSign1U") {
			// a 65536-byte payload
			t := genTreeOfKind(r, kind, GenCfg{MaxEntries: 2, ValDepth: 1})
			body := t
			if kind == "DSign1" {
				body = t.Kids[0]
			}
			body.Kids[2] = wBstr(bytes.Repeat([]byte{0x5a}, 65536), -1)
			inputs = append(inputs, t.Ser())
		}
		// ---- run the history on the implementation ----
		dst := newDest(kind)
		aux := newDest(kind) // a second variable: every accepted input is also decoded here and then written to by the "application"
		var verdicts []string
		cur := oT("zero")
		var outputs [][]byte
		var copies []func() string
		var copyWant []string
		failed := false
		accepted := 0
		for s, in := range inputs {
			buf := append([]byte{}, in...) // the buffer handed to the decoder; scribbled later
			inputs[s] = buf
			before := dst.render()
			var err error
			if p, v := protect(func() { err = dst.decode(buf) }); p {
				c.Fail("C06/panic/"+kind, fmt.Sprint("decoder panicked in a history: ", v), map[string]any{"kind": kind, "data": hx(in)})
				failed = true
				break
			}
			if err != nil {
				verdicts = append(verdicts, oErr(err))
				if after := dst.render(); after != before {
					c.Fail("C19/failed-decode-modified-destination", fmt.Sprintf("step %d: a refused input changed the destination", s), map[string]any{"kind": kind, "history": hexList(inputs[:s+1]), "before": trunc(before, 500), "after": trunc(after, 500)})
					failed = true
					break
				}
			} else {
				accepted++
				verdicts = append(verdicts, oOk())
				if strings.Contains(dst.render(), "424242") {
					c.Fail("C19/decoded-values-share-state", fmt.Sprintf("step %d: the decoded value contains what the application wrote into a value decoded earlier", s), map[string]any{"kind": kind, "history": hexList(inputs[:s+1]), "value": trunc(dst.render(), 500)})
					failed = true
					break
				}
				if aux.decode(append([]byte{}, in...)) == nil {
					aux.pollute()
				}
				fresh := newDest(kind)
				fresh.decode(append([]byte{}, in...))
				if dst.render() != fresh.render() {
					c.Fail("C19/history-dependent", fmt.Sprintf("step %d: decoding into a used variable differs from decoding into a fresh one", s), map[string]any{"kind": kind, "history": hexList(inputs[:s+1]), "reused": trunc(dst.render(), 500), "fresh": trunc(fresh.render(), 500)})
					failed = true
					break
				}
				cur = dst.render()
				if out, err := dst.encode(); err == nil {
					outputs = append(outputs, out)
				}
				if msg := c19Edited(kind, in); msg != "" {
					c.Fail("C19/history-dependent", fmt.Sprintf("step %d: %s", s, msg), map[string]any{"kind": kind, "data": hx(in)})
					failed = true
					break
				}
				// a copy of the value taken now must not be affected by later decodes
				cp := dst.copyRender()
				copies = append(copies, cp)
				copyWant = append(copyWant, cp())
			}
			// earlier copies still intact?
			for j, cp := range copies {
				if cp() != copyWant[j] {
					c.Fail("C19/earlier-copy-modified", fmt.Sprintf("step %d: a value copied out after an earlier decode was changed by a later decode", s), map[string]any{"kind": kind, "history": hexList(inputs[:s+1])})
					failed = true
				}
			}
			if failed {
				break
			}
		}
		if failed {
			continue
		}
		// ---- no aliasing: overwrite every input buffer and every encoder output ----
		final := dst.render()
		for _, b := range inputs {
			scribble(b)
		}
		for _, b := range outputs {
			scribble(b)
		}
		if after := dst.render(); after != final {
			c.Fail("C19/aliases-input-buffer", "overwriting the input buffers / earlier encoder outputs changed the decoded value", map[string]any{"kind": kind, "before": trunc(final, 500), "after": trunc(after, 500)})
			continue
		}
		// ---- model ----
		if kind != "DSign1" || true {
			items := make([]string, len(inputs))
			// inputs were scribbled: rebuild from verdict-independent copies is impossible, so keep originals
			_ = items
		}
		_ = cur
		_ = accepted
	}
	// model comparison on fresh histories (inputs kept intact)
	for i := 0; i < n; i++ {
		kind := kinds[i%len(kinds)]
		steps := 1 + r.Intn(5)
		var inputs [][]byte
		for s := 0; s < steps; s++ {
			t := genTreeOfKind(r, kind, GenCfg{MaxEntries: 3, ValDepth: 1, Csig: 1, Tags: true})
			if r.Chance(1, 3) {
				mutateTree(r, &t)
			}
			inputs = append(inputs, t.Ser())
		}
		dst := newDest(kind)
		aux := newDest(kind) // a second variable: every accepted input is also decoded here and then written to by the "application"
		var verdicts []string
		cur := oT("zero")
		bad := false
		for _, in := range inputs {
			var err error
			if p, _ := protect(func() { err = dst.decode(append([]byte{}, in...)) }); p {
				bad = true
				break
			}
			if err != nil {
				verdicts = append(verdicts, oErr(err))
			} else {
				verdicts = append(verdicts, oOk())
				cur = dst.render()
				if aux.decode(append([]byte{}, in...)) == nil {
					aux.pollute()
				}
			}
		}
		if bad {
			continue
		}
		items := make([]string, len(inputs))
		for j, in := range inputs {
			items[j] = cBytes(in)
		}
		op := "OpDecSeq " + kind + " " + cList(items)
		obs := oT("seq", cur, oT("verdicts", verdicts...))
		addCase(c, "history/"+kind, op, obs, len(inputs) > 1)
	}
}

func hexList(bs [][]byte) []string {
	out := make([]string, len(bs))
	for i, b := range bs {
		out[i] = trunc(hx(b), 400)
	}
	return out
}

// dest: one reusable destination variable per decoder kind
// c19Edited: the application decodes a message, edits the decoded header maps (not the retained bytes), and later
// decodes into the same variable another message whose header bytes happen to be the same (same sender, other
// payload / signature): the variable must then hold exactly what a fresh decode of the second message gives.
func c19Edited(kind string, in []byte) string {
	w, err := refParseFull(in)
	if err != nil {
		return ""
	}
	body := w
	if w.Maj == 6 {
		body = w.Kids[0]
	}
	if body.Maj != 4 || len(body.Kids) < 3 {
		return ""
	}
	last := body.Kids[len(body.Kids)-1]
	if kind == "DSignMsg" {
		last = body.Kids[2]
	}
	if last.Maj != 2 {
		return ""
	}
	last.Str = append(append([]byte{}, last.Str...), 0x77)
	last.Width = pickW(uint64(len(last.Str)), -1)
	in2 := w.Ser()
	editH := func(h *cose.Headers) {
		for _, v := range h.Protected {
			polluteDeep(v, 0)
		}
		for _, v := range h.Unprotected {
			polluteDeep(v, 0)
		}
		if h.Protected != nil {
			h.Protected[polluteLabel] = "edited"
			delete(h.Protected, int64(1))
		}
		if h.Unprotected != nil {
			h.Unprotected[polluteLabel] = "edited"
			delete(h.Unprotected, int64(4))
		}
	}
	// what the second message decodes to before anything else has happened
	beforeD := decodeKind(kind, append([]byte{}, in2...))
	before := beforeD.value
	var used, fresh string
	var e1, e2 error
	switch kind {
	case "DSign1":
		var m, f cose.Sign1Message
		if m.UnmarshalCBOR(append([]byte{}, in...)) != nil {
			return ""
		}
		editH(&m.Headers)
		e1, e2 = m.UnmarshalCBOR(append([]byte{}, in2...)), f.UnmarshalCBOR(append([]byte{}, in2...))
		used, fresh = oSign1(&m), oSign1(&f)
	case "DSign1U":
		var m, f cose.UntaggedSign1Message
		if m.UnmarshalCBOR(append([]byte{}, in...)) != nil {
			return ""
		}
		editH(&m.Headers)
		e1, e2 = m.UnmarshalCBOR(append([]byte{}, in2...)), f.UnmarshalCBOR(append([]byte{}, in2...))
		used, fresh = oSign1((*cose.Sign1Message)(&m)), oSign1((*cose.Sign1Message)(&f))
	case "DSignMsg":
		var m, f cose.SignMessage
		if m.UnmarshalCBOR(append([]byte{}, in...)) != nil {
			return ""
		}
		editH(&m.Headers)
		for _, sg := range m.Signatures {
			if sg != nil {
				editH(&sg.Headers)
			}
		}
		e1, e2 = m.UnmarshalCBOR(append([]byte{}, in2...)), f.UnmarshalCBOR(append([]byte{}, in2...))
		used, fresh = oSignMsg(&m), oSignMsg(&f)
	case "DSignature":
		var m, f cose.Signature
		if m.UnmarshalCBOR(append([]byte{}, in...)) != nil {
			return ""
		}
		editH(&m.Headers)
		e1, e2 = m.UnmarshalCBOR(append([]byte{}, in2...)), f.UnmarshalCBOR(append([]byte{}, in2...))
		used, fresh = oSigv(&m), oSigv(&f)
	default:
		return ""
	}
	if (e1 == nil) != (e2 == nil) {
		return fmt.Sprintf("a message with the same header bytes as the one decoded before (whose decoded maps the application had edited) is decoded with err=%v into the used variable and err=%v into a fresh one", e1, e2)
	}
	if e1 == nil && beforeD.err == nil && !beforeD.paniced && before != "" && fresh != before {
		return "a message decodes to " + trunc(before, 300) + "; after another message with the same header bytes was decoded and its decoded values were edited by the application, the same bytes decode (into a fresh variable) to " + trunc(fresh, 300)
	}
	if e1 == nil && used != fresh {
		return "decoding a message with the same header bytes as the previous one into a variable whose decoded maps had been edited gives " + trunc(used, 300) + ", a fresh decode gives " + trunc(fresh, 300)
	}
	return ""
}

type dest struct {
	decode     func([]byte) error
	render     func() string
	encode     func() ([]byte, error)
	copyRender func() func() string
	pollute    func() // writes into every map and byte slice reachable from the current value
}

const polluteLabel = int64(424242)

func polluteBytes(bs ...[]byte) {
	for _, b := range bs {
		for i := range b {
			b[i] ^= 0x5a
		}
	}
}

func polluteHeaders(h *cose.Headers) { polluteHeadersDepth(h, 0) }

func newDest(kind string) *dest {
	switch kind {
	case "DSign1":
		var m cose.Sign1Message
		return &dest{m.UnmarshalCBOR, func() string { return oSign1(&m) }, m.MarshalCBOR, func() func() string { cp := m; return func() string { return oSign1(&cp) } },
			func() { polluteHeaders(&m.Headers); polluteBytes(m.Payload, m.Signature) }}
	case "DSign1U":
		var m cose.UntaggedSign1Message
		return &dest{m.UnmarshalCBOR, func() string { return oSign1((*cose.Sign1Message)(&m)) }, m.MarshalCBOR, func() func() string {
			cp := m
			return func() string { return oSign1((*cose.Sign1Message)(&cp)) }
		}, func() { polluteHeaders(&m.Headers); polluteBytes(m.Payload, m.Signature) }}
	case "DSignMsg":
		var m cose.SignMessage
		return &dest{m.UnmarshalCBOR, func() string { return oSignMsg(&m) }, m.MarshalCBOR, func() func() string { cp := m; return func() string { return oSignMsg(&cp) } },
			func() {
				polluteHeaders(&m.Headers)
				polluteBytes(m.Payload)
				for _, sg := range m.Signatures {
					if sg != nil {
						polluteHeaders(&sg.Headers)
						polluteBytes(sg.Signature)
					}
				}
			}}
	case "DSignature":
		var s cose.Signature
		return &dest{s.UnmarshalCBOR, func() string { return oSigv(&s) }, s.MarshalCBOR, func() func() string { cp := s; return func() string { return oSigv(&cp) } },
			func() { polluteHeaders(&s.Headers); polluteBytes(s.Signature) }}
	case "DProt":
		var h cose.ProtectedHeader
		return &dest{h.UnmarshalCBOR, func() string {
			if h == nil {
				return oT("zero")
			}
			return "OG (GMap " + cFlatMap(h) + ")"
		}, func() ([]byte, error) { return h.MarshalCBOR() }, func() func() string {
			cp := h
			return func() string { return "OG (GMap " + cFlatMap(cp) + ")" }
		}, func() {
			if h != nil {
				h[polluteLabel] = "written by the application"
			}
		}}
	case "DUnprot":
		var h cose.UnprotectedHeader
		return &dest{h.UnmarshalCBOR, func() string {
			if h == nil {
				return oT("zero")
			}
			return "OG (GMap " + cFlatMap(h) + ")"
		}, func() ([]byte, error) { return h.MarshalCBOR() }, func() func() string {
			cp := h
			return func() string { return "OG (GMap " + cFlatMap(cp) + ")" }
		}, func() {
			if h != nil {
				h[polluteLabel] = "written by the application"
			}
		}}
	}
	panic("kind")
}

// hookVerifier: a Verifier whose verdict comes from a function
type hookVerifier struct {
	alg cose.Algorithm
	f   func() error
}

func (h *hookVerifier) Algorithm() cose.Algorithm        { return h.alg }
func (h *hookVerifier) Verify(content, sig []byte) error { return h.f() }

// polluteDeep writes into everything reachable from a decoded header value that Go lets a holder write into: the octets of
// byte strings, the elements of arrays, the entries of maps, the buckets and signature of nested countersignatures
func polluteDeep(v any, depth int) {
	if depth > 6 {
		return
	}
	switch t := v.(type) {
	case []byte:
		polluteBytes(t)
	case []any:
		for i := range t {
			polluteDeep(t[i], depth+1)
			if _, isBytes := t[i].([]byte); !isBytes {
				t[i] = "written by the application"
			}
		}
	case map[any]any:
		for _, e := range t {
			polluteDeep(e, depth+1)
		}
		t[polluteLabel] = "written by the application"
	case *cose.Countersignature:
		if t != nil {
			polluteHeadersDepth(&t.Headers, depth+1)
			polluteBytes(t.Signature)
		}
	case []*cose.Countersignature:
		for _, e := range t {
			polluteDeep(e, depth+1)
		}
	}
}

func polluteHeadersDepth(h *cose.Headers, depth int) {
	for _, v := range h.Protected {
		polluteDeep(v, depth)
	}
	for _, v := range h.Unprotected {
		polluteDeep(v, depth)
	}
	if h.Protected != nil {
		h.Protected[polluteLabel] = "written by the application"
	}
	if h.Unprotected != nil {
		h.Unprotected[polluteLabel] = "written by the application"
	}
	polluteBytes(h.RawProtected, h.RawUnprotected)
}

// c19BigFailingInputs: a destination that holds a message, then a refused input of 1 MiB and more (a valid message
// cut short, with an octet appended, with its signature emptied): the destination is exactly what it was.
func c19BigFailingInputs(c *Collector) {
	small := unhex("d28443a10126a104426b31" + "45" + "68656c6c6f" + "420102")
	for _, size := range []int{1 << 16, 1<<20 - 4096, 1 << 20, 1<<20 + 4096, 3 << 20} {
		payload := bytes.Repeat([]byte{0x61}, size)
		valid := wTag(18, -1, wArr(-1, wBstr(wMap(-1, wInt(1, -1), wInt(-7, -1)).Ser(), -1), wMap(-1), wBstr(payload, -1), wBstr([]byte{1, 2}, -1))).Ser()
		emptySig := wTag(18, -1, wArr(-1, wBstr(wMap(-1, wInt(1, -1), wInt(-7, -1)).Ser(), -1), wMap(-1), wBstr(payload, -1), wBstr(nil, -1))).Ser()
		badCrit := wTag(18, -1, wArr(-1, wBstr(wMap(-1, wInt(1, -1), wInt(-7, -1), wInt(2, -1), wArr(-1, wInt(99, -1))).Ser(), -1), wMap(-1), wBstr(payload, -1), wBstr([]byte{1, 2}, -1))).Ser()
		for name, bad := range map[string][]byte{"truncated": valid[:len(valid)-1], "trailing octet": append(append([]byte{}, valid...), 0), "empty signature": emptySig, "crit names an absent label": badCrit} {
			for _, tagged := range []bool{true, false} {
				var m cose.Sign1Message
				in0, inBad := small, bad
				var dec func([]byte) error
				if tagged {
					dec = m.UnmarshalCBOR
				} else {
					in0, inBad = small[1:], bad[1:]
					dec = (*cose.UntaggedSign1Message)(&m).UnmarshalCBOR
				}
				if dec(append([]byte{}, in0...)) != nil {
					continue
				}
				before := oSign1(&m)
				err := dec(append([]byte{}, inBad...))
				c.Eval("big-failing-input", fmt.Sprint(size, name, tagged), true)
				if err == nil {
					continue
				}
				if after := oSign1(&m); after != before {
					c.Fail("C19/failed-decode-modified-destination", fmt.Sprintf("a refused input of %d octets (%s) left the destination changed: it held %s, now %s", len(inBad), name, trunc(before, 200), trunc(after, 200)), map[string]any{"size": len(inBad), "fault": name, "tagged": tagged})
				}
			}
		}
	}
}
